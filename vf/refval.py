"""
Reference semantics of the validation layer, written from the statements of C13/C14/C16/C17 and the documented tables
(docstrings of map_requirement_validation_values / combine_requirements_of_different_levels), not from the code.

An evaluation outcome of a node's expression is abstract:
   ("ok", indicator_name, fulfilled in {True, False, None}, hints, fc_fulfilled, fc_message)  |  ("invalid", reason)
indicator_name in MUSS SOLL KANN X O U.
"""

from __future__ import annotations

from typing import Any, Callable, List, Optional, Tuple

REQ, OPT, FORB = "IS_REQUIRED", "IS_OPTIONAL", "IS_FORBIDDEN"


class Undetermined(Exception):
    """documented: a visited MUSS / prefix-operator node with an undetermined outcome -> NotImplementedError for the run"""


def map_status(indicator: str, fulfilled: Optional[bool], soll_is_required: bool) -> str:
    if indicator == "SOLL":
        indicator = "MUSS" if soll_is_required else "KANN"
    if fulfilled is False:
        return FORB
    if fulfilled is None:
        if indicator == "KANN":
            return OPT
        raise Undetermined()
    return OPT if indicator == "KANN" else REQ


def combine(parent: Optional[str], child: str) -> str:
    if parent is None or parent == REQ:
        return child
    if parent == OPT:
        return OPT if child == REQ else child
    raise ValueError("parent forbidden is handled by pruning")


def node_status(ev, parent: Optional[str], soll: bool) -> Tuple[str, Optional[str]]:
    """(status, hints) of a segment-level node"""
    if ev[0] == "invalid":
        return OPT, ev[1]
    return combine(parent, map_status(ev[1], ev[2], soll)), ev[3]


def freetext(ev, segment_status: Optional[str], soll: bool, entered_input) -> dict:
    if ev[0] == "invalid":
        return {"status_base": OPT, "suffix": None, "hints": ev[1], "invalid": True}
    base = combine(segment_status, map_status(ev[1], ev[2], soll))
    return {"status_base": base, "suffix": "_AND_FILLED" if entered_input else "_AND_EMPTY", "hints": ev[3], "fc": ev[4], "fc_msg": ev[5], "invalid": False}


def valuepool(entries: List[Tuple[str, Any]], segment_status: str, entered_input) -> dict:
    """entries: [(qualifier, evaluation outcome)]"""
    if segment_status == FORB:
        return {"forbidden": True, "offered": []}
    if len(entries) == 1:
        offered = [entries[0][0]]
    else:
        offered = [q for q, ev in entries if ev[0] == "invalid" or ev[2] is True]
    out = {"offered": offered, "forbidden": not offered}
    if offered:
        if entered_input in offered:
            out["input"] = "accepted"
        elif entered_input:
            out["input"] = "unexpected"
        else:
            out["input"] = "absent"
    return out
