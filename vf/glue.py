"""job builders shared by C04/C05/C06/C07 (step lemmas on rc_step, bounded glue on rc_glue)"""
from __future__ import annotations

from typing import Dict, List

from vf.harness import rc_glue


def step_jobs(mode: str, ops=(0, 1, 2, 3), fns=("step",), chunk: int = 7, timeout: int = 300) -> List[Dict]:
    jobs = []
    for fn in fns:
        for op in ops:
            for lo in range(0, 21, chunk):
                jobs.append({"fn": fn, "globals": {"MODE": mode, "OP": op, "L_LO": lo, "L_HI": min(21, lo + chunk)}, "timeout": timeout})
    return jobs


def glue_jobs(mode: str, tier: str, chunk: int = 40) -> List[Dict]:
    """one CrossHair condition per chunk of <= `chunk` in-scope cases (DESIGN §3.4: <= 50 selector combinations each)"""
    jobs = []

    def add(nleaves, nkinds, attach, ymax, vfree, timeout):
        g = {"MODE": mode, "NLEAVES": nleaves, "NKINDS": nkinds, "ATTACH": attach, "YMAX": ymax, "VARIANT_FREE": vfree}
        for k, v in g.items():
            setattr(rc_glue, k, v)
        n = len(rc_glue.cases())
        for lo in range(0, n, chunk):
            jobs.append({"fn": "glue_fce" if mode == "C07" else "glue_val", "globals": dict(g, LO=lo, HI=min(n, lo + chunk)), "timeout": timeout})

    if tier == "quick":
        add(1, 6, 0, 1, 1, 200)
        add(2, 5, 1, 1 if mode == "C04" else 0, 0, 300)
    elif mode == "C07":
        add(1, 6, 0, 0, 1, 400)
        add(2, 6, 1, 0, 1, 900)
        add(3, 2, 0, 0, 0, 900)
    else:
        add(1, 6, 0, 2, 1, 400)
        add(2, 6, 1, 1, 1, 900)
        add(3, 2, 1, 0, 0, 900)
        if mode == "C04":
            add(3, 1, 0, 1, 0, 900)  # three requirement keys with a yielding first key: completion order vs key order
    return jobs


def glue_bounds(tier: str) -> Dict[str, str]:
    if tier == "quick":
        return {
            "glue": "all 1-leaf expressions (6 leaf kinds, 4 spelling/bracket variants, yields<=1) and all 150 two-leaf shapes "
            "(3 operators x 5x5 leaf kinds x attached-FC flag; one spelling/bracket variant per shape) x all states of the requirement keys; yields <= 1 for C04 (0 otherwise); C04: the same parsed tree evaluated a second time under a rotated assignment"
        }
    return {
        "glue": "1-leaf: all; 2-leaf: all 216 shapes (6 leaf kinds incl. bare format constraint) x 4 spelling/bracket/duplicate-key variants x all states x yields<=1; "
        "3-leaf: 2 skeletons x 9 operator pairs x 8 leaf-kind combinations (rc, hint) x 4 attach flags x all states"
    }
