"""
GS — grammar-to-SMT.  Takes the LIVE Lark object (rules, aliases, rule order, expand1 flags, filter_out flags,
terminals, %ignore list — i.e. whatever the current GRAMMAR string really compiles to) and builds, over a SYMBOLIC
token sequence w[0..N) (one z3 Int per position = index of a terminal class, plus a symbolic length n <= N):

  D[A][i][j]      A derives w[i:j]                      (CYK, generic over rule length, unit rules in topological order)
  App[r][i][j]    rule r is applicable to span (i, j)
  Label[A][i][j]  the tree label Lark produces for A over (i, j) under the resolution contract of
                  lark/parsers/earley_forest.py (ForestToParseTree / sort_key = (is_empty, -priority, rule.order)):
                  the applicable rule with the smallest `order` wins; alias -> alias; expand1 with one visible child ->
                  the child's label; otherwise the rule's origin.

Every table entry is a fresh Bool/Int constant with a defining equation, so formula size is O(N^3 * sum|rhs|).
"""

from __future__ import annotations

import time
from typing import Dict, List, Optional, Tuple

import z3


class Unsupported(Exception):
    pass


class Grammar:
    def __init__(self, lark_obj):
        self.lark = lark_obj
        self.start = lark_obj.options.start[0] if isinstance(lark_obj.options.start, (list, tuple)) else lark_obj.options.start
        self.ignore = list(lark_obj.ignore_tokens)
        self.terms = [t for t in lark_obj.terminals if t.name not in self.ignore]
        self.tindex = {t.name: i for i, t in enumerate(self.terms)}
        self.rules = list(lark_obj.rules)
        self.nts = []
        for r in self.rules:
            if r.origin.name not in self.nts:
                self.nts.append(r.origin.name)
        for r in self.rules:
            if not r.expansion:
                raise Unsupported(f"epsilon rule for {r.origin.name}")
            for s in r.expansion:
                if s.is_term and s.name not in self.tindex:
                    raise Unsupported(f"terminal {s.name} is ignored or unknown")
                if getattr(r.options, "priority", None):
                    raise Unsupported("rule priorities")
        # unit-rule graph must be acyclic
        self.unit_order = self._topo()
        self.labels: Dict[str, int] = {}

    def _topo(self) -> List[str]:
        deps = {a: set() for a in self.nts}
        for r in self.rules:
            if len(r.expansion) == 1 and not r.expansion[0].is_term:
                deps[r.origin.name].add(r.expansion[0].name)
        order, seen, stack = [], set(), set()

        def visit(a):
            if a in seen:
                return
            if a in stack:
                raise Unsupported("cyclic unit rules")
            stack.add(a)
            for b in deps[a]:
                visit(b)
            stack.discard(a)
            seen.add(a)
            order.append(a)

        for a in self.nts:
            visit(a)
        return order

    def label_id(self, name: str) -> int:
        if name not in self.labels:
            self.labels[name] = len(self.labels)
        return self.labels[name]


class Tables:
    """CYK tables over a symbolic token sequence of length <= N"""

    def __init__(self, g: Grammar, N: int, with_labels: bool = True):
        self.g, self.N = g, N
        self.w = [z3.Int(f"w{i}") for i in range(N)]
        self.n = z3.Int("n")
        self.defs: List[z3.BoolRef] = []
        self.dom = [z3.And(x >= 0, x < len(g.terms)) for x in self.w] + [self.n >= 1, self.n <= N]
        self.D: Dict[Tuple[str, int, int], z3.BoolRef] = {}
        self.App: Dict[Tuple[int, int, int], z3.BoolRef] = {}
        self.Label: Dict[Tuple[str, int, int], z3.ArithRef] = {}
        self._build(with_labels)

    def _fresh_bool(self, name, expr):
        b = z3.Bool(name)
        self.defs.append(b == expr)
        return b

    def _sym(self, s, i, j):
        if s.is_term:
            if j != i + 1:
                return z3.BoolVal(False)
            return self.w[i] == self.g.tindex[s.name]
        return self.D.get((s.name, i, j), z3.BoolVal(False))

    def _build(self, with_labels):
        g, N = self.g, self.N
        rules_of = {a: [(ri, r) for ri, r in enumerate(g.rules) if r.origin.name == a] for a in g.nts}
        for length in range(1, N + 1):
            for i in range(0, N - length + 1):
                j = i + length
                for a in g.unit_order:
                    alts = []
                    for ri, r in rules_of[a]:
                        exp = r.expansion
                        m = len(exp)
                        if m > length:
                            self.App[(ri, i, j)] = z3.BoolVal(False)
                            continue
                        if m == 1:
                            app = self._sym(exp[0], i, j)
                        else:
                            # prefix tables: P[p][k] = first p symbols derive (i, k)
                            prev = {i: z3.BoolVal(True)}
                            for p, s in enumerate(exp):
                                cur = {}
                                last = p == m - 1
                                remaining = m - p - 1
                                for k0, c0 in prev.items():
                                    ends = [j] if last else range(k0 + 1, j - remaining + 1)
                                    for k1 in ends:
                                        if k1 <= k0:
                                            continue
                                        if s.is_term and k1 != k0 + 1:
                                            continue
                                        term = z3.And(c0, self._sym(s, k0, k1))
                                        cur[k1] = z3.Or(cur[k1], term) if k1 in cur else term
                                prev = cur
                            app = prev.get(j, z3.BoolVal(False))
                        app = z3.simplify(app)
                        if not (z3.is_true(app) or z3.is_false(app)):
                            app = self._fresh_bool(f"App_{ri}_{i}_{j}", app)
                        self.App[(ri, i, j)] = app
                        alts.append(app)
                    d = z3.simplify(z3.Or(*alts)) if alts else z3.BoolVal(False)
                    if not (z3.is_true(d) or z3.is_false(d)):
                        d = self._fresh_bool(f"D_{a}_{i}_{j}", d)
                    self.D[(a, i, j)] = d
                if with_labels:
                    for a in g.unit_order:
                        self._label(a, i, j, rules_of[a])

    def _label(self, a, i, j, rules):
        g = self.g
        term = z3.IntVal(-1)
        for ri, r in sorted(rules, key=lambda x: -x[1].order):
            app = self.App[(ri, i, j)]
            if z3.is_false(app):
                continue
            if r.alias:
                lab = z3.IntVal(g.label_id(str(r.alias)))
            else:
                visible = [(p, s) for p, s in enumerate(r.expansion) if not (s.is_term and getattr(s, "filter_out", False))]
                if r.options.expand1 and len(visible) == 1 and not visible[0][1].is_term:
                    p, s = visible[0]
                    before, after = p, len(r.expansion) - p - 1
                    if any(not x.is_term for x in r.expansion[:p] + r.expansion[p + 1 :]):
                        raise Unsupported("expand1 rule with several non-terminals")
                    lab = self.Label.get((s.name, i + before, j - after), z3.IntVal(-1))
                else:
                    lab = z3.IntVal(g.label_id(r.origin.name))
            term = z3.If(app, lab, term)
        lv = z3.Int(f"L_{a}_{i}_{j}")
        self.defs.append(lv == term)
        self.Label[(a, i, j)] = lv

    def in_language(self):
        """w[0:n] is derivable from the start symbol"""
        return z3.Or(*[z3.And(self.n == j, self.D[(self.g.start, 0, j)]) for j in range(1, self.N + 1)])


def solve(assertions, timeout_ms=600000, seed=0):
    s = z3.Solver()
    s.set("timeout", timeout_ms)
    s.set("random_seed", seed)
    for a in assertions:
        s.add(a)
    t = time.time()
    r = s.check()
    dt = time.time() - t
    from vf import crosscheck

    crosscheck.compare("grammar query", assertions, str(r), timeout_s=600)
    return str(r), (s.model() if str(r) == "sat" else None), dt, s


def model_tokens(model, tables: Tables, length: Optional[int] = None) -> List[str]:
    n = length if length is not None else model.eval(tables.n, model_completion=True).as_long()
    return [tables.g.terms[model.eval(tables.w[i], model_completion=True).as_long()].name for i in range(n)]
