"""
C11 — parsing is a pure function of the string, whatever happened before.
Histories of parse / resolve calls interleaved with in-place edits of the trees returned earlier.  The REAL cache is
active: CrossHair bypasses functools.lru_cache while tracing, so the cached function inside tree_copy's closure is
replaced by a proxy that calls the real C lru_cache wrapper untraced (DESIGN §3.3); tree_copy itself stays traced.
After every parse the returned tree must equal what the uncached real Lark.parse returns for that string.
"""
import functools

from lark import Token, Tree

import ahbicht.expressions.ahb_expression_parser as aep
import ahbicht.expressions.condition_expression_parser as cep
from ahbicht.expressions.expression_resolver import parse_expression_including_unresolved_subexpressions
from ahbicht.utility_functions import tree_copy

from vf import detloop, env, xs
from vf.harness.resolve_harness import same, show

COND = ("([UB1] U [1]) O [2]", "[1] U [2]", "[3][901]")
AHB = ("Muss([UB1] U [1]) O [2]", "Muss [1] U [2] Kann", "X [3][901] ")
RESOLVE = (AHB[0], COND[0], COND[1])
NS = 2  # strings per parser in use
EDITS = 11  # 0 none; 1.. = (kind-1)*2 + depth : kinds replace child, delete child, append child, rebind data, rebind children
EDIT_SET = tuple(range(11))
STEPS = 1
FIX = ()
FIXA = -1
FIXB = -1
FIXK = 0
MAXSIZE = 0  # 0: the real decorated functions (maxsize 1024); 2: scaled-down composition tree_copy(lru_cache(2)(raw))


class CacheProxy:
    """calls the real lru_cache wrapper untraced; forwards cache_info / cache_clear"""

    def __init__(self, real):
        self.real = real

    def __call__(self, *a, **k):
        a = xs.R(a)
        exc = None
        res = None
        with xs.nt():
            try:
                res = self.real(*a, **k)
            except Exception as e:  # pylint:disable=broad-except
                exc = e
        if exc is not None:
            raise exc
        return res

    def cache_info(self):
        with xs.nt():
            return self.real.cache_info()

    def cache_clear(self):
        with xs.nt():
            return self.real.cache_clear()

    def __getattr__(self, name):
        return getattr(self.real, name)


def _cached_cell(fn):
    """the closure cell of tree_copy's `decorated` that holds the lru_cached function"""
    clo = getattr(fn, "__closure__", None) or ()
    for cell in clo:
        c = cell.cell_contents
        if isinstance(c, CacheProxy) or (hasattr(c, "cache_info") and hasattr(c, "__wrapped__")):
            return cell
    return None


_SETUP = {}


def setup():
    """install proxies; returns (parse_cond, parse_ahb) under test"""
    key = MAXSIZE
    xs.REAL_LRU = True  # every lru_cache of the code under test really caches during this path ...
    xs.clear_ahbicht_caches()  # ... and starts empty
    with xs.nt():
        env.install_parser_proxies()
        fc, fa = cep.parse_condition_expression_to_tree, aep.parse_ahb_expression_to_single_requirement_indicator_expressions
        cells = [_cached_cell(fn) for fn in (fc, fa)]
        if any(c is None for c in cells):
            # the parse functions are not "copying decorator around an lru_cached function" any more: histories still run on
            # the public functions (all lru caches of ahbicht were cleared above); only the scaled-down cache cannot be built
            if key != 0:
                raise xs.Inconclusive("parse functions are no longer a copying decorator around an lru_cached function: the scaled-down cache (maxsize 2) cannot be built; histories on the public functions still run")
            return fc, fa
        for cell in cells:
            if not isinstance(cell.cell_contents, CacheProxy):
                cell.cell_contents = CacheProxy(cell.cell_contents)
            cell.cell_contents.cache_clear()
        if key == 0:
            return fc, fa
        if key not in _SETUP:
            raws = [_cached_cell(fn).cell_contents.real.__wrapped__ for fn in (fc, fa)]
            _SETUP[key] = tuple(tree_copy(CacheProxy(functools.lru_cache(maxsize=key)(raw))) for raw in raws)
        for fn in _SETUP[key]:
            _cached_cell(fn).cell_contents.cache_clear()
        return _SETUP[key]


def apply_edit(tree, edit: int):
    """in-place edit of a returned tree (what a caller might do with it)"""
    if edit == 0:
        return
    kind, depth = (edit - 1) // 2, (edit - 1) % 2
    node = tree
    if depth == 1:
        sub = [c for c in tree.children if isinstance(c, Tree)]
        if not sub:
            return
        node = sub[-1] if kind % 2 else sub[0]
    if kind == 0 and node.children:
        node.children[0] = Token("CONDITION_KEY", "666")
    elif kind == 1 and node.children:
        del node.children[0]
    elif kind == 2:
        node.children.append(Tree("condition", [Token("CONDITION_KEY", "777")]))
    elif kind == 3:
        node.data = "hacked"
    elif kind == 4:
        node.children = [Token("CONDITION_KEY", "888")]


_PARAM = {}


def _invoke(fns, op, text, s):
    """strings with an odd index are passed BY KEYWORD (a different lru_cache key than a positional call, and a different
    path through the copying decorator)"""
    if s % 2 == 0:
        return fns[op](text)
    if op not in _PARAM:
        with xs.nt():
            import inspect

            raw = (cep.parse_condition_expression_to_tree, aep.parse_ahb_expression_to_single_requirement_indicator_expressions)[op]
            cell = _cached_cell(raw)
            if cell is not None:
                fn = getattr(cell.cell_contents, "real", cell.cell_contents)
                _PARAM[op] = list(inspect.signature(fn.__wrapped__).parameters)[0]
            else:
                ps = list(inspect.signature(raw).parameters.values())
                _PARAM[op] = ps[0].name if ps and ps[0].kind in (ps[0].POSITIONAL_OR_KEYWORD, ps[0].KEYWORD_ONLY) else None
    if _PARAM[op] is None:
        return fns[op](text)
    return fns[op](**{_PARAM[op]: text})


def _step(fns, op, s, edit):
    """one history step; returns None or a failure text"""
    if op == 2:
        # a caller resolves the expression (time conditions are replaced in the returned tree) — must not leak into the cache
        text = RESOLVE[s]
        try:
            detloop.run(parse_expression_including_unresolved_subexpressions(text))
        except Exception as e:  # pylint:disable=broad-except
            return f"resolving '{text}' raised {type(e).__name__}: {e}"
        return None
    if op == 3:
        # a caller resolves WITHOUT any expansion and edits the returned tree deep inside the condition part
        text = AHB[s]
        try:
            t = detloop.run(parse_expression_including_unresolved_subexpressions(text, resolve_packages=False, replace_time_conditions=False))
        except Exception as e:  # pylint:disable=broad-except
            return f"resolving '{text}' raised {type(e).__name__}: {e}"
        node = t
        for _ in range(2):
            subs = [c for c in node.children if isinstance(c, Tree)]
            if not subs:
                break
            node = subs[0]
        apply_edit(node, edit if edit % 2 == 1 else max(edit - 1, 0))
        return None
    text = (COND, AHB)[op][s]
    which = "condition" if op == 0 else "ahb"
    try:
        got = _invoke(fns, op, text, s)
    except Exception as e:  # pylint:disable=broad-except
        return f"parsing '{text}' ({'keyword' if s % 2 else 'positional'} call) raised {type(e).__name__}: {e}"
    with xs.nt():
        want = env.real_parser(which).parse(text)
        ok = same(got, want)
        msg = None if ok else f"parse of '{text}' returned {show(got)}, a fresh uncached parse gives {show(want)}"
    if msg:
        return msg
    apply_edit(got, edit)
    return None


def history(o1: int, s1: int, e1: int, o2: int, s2: int, e2: int, o3: int, s3: int, e3: int, of: int, sf: int) -> bool:
    """
    pre: STEPS >= 2 or (o2 == 0 and s2 == 0 and e2 == 0)
    pre: STEPS >= 3 or (o3 == 0 and s3 == 0 and e3 == 0)
    pre: len(FIX) < 1 or o1 == FIX[0]
    pre: len(FIX) < 2 or s1 == FIX[1]
    pre: len(FIX) < 3 or o2 == FIX[2]
    pre: len(FIX) < 4 or s2 == FIX[3]
    pre: len(FIX) < 5 or o3 == FIX[4]
    pre: 0 <= o1 < 4 and 0 <= s1 < NS and 0 <= e1 < len(EDIT_SET)
    pre: 0 <= o2 < 4 and 0 <= s2 < NS and 0 <= e2 < len(EDIT_SET)
    pre: 0 <= o3 < 4 and 0 <= s3 < NS and 0 <= e3 < len(EDIT_SET)
    pre: 0 <= of < 2 and 0 <= sf < NS
    post: _
    """
    xs.path_start()
    fns = setup()
    steps = [(o1, s1, e1), (o2, s2, e2), (o3, s3, e3)][:STEPS]
    conc = []
    for o, s, e in steps:
        o, s = xs.pick(o, 0, 4), xs.pick(s, 0, NS)
        conc.append((o, s, EDIT_SET[xs.pick(e, 0, len(EDIT_SET))]))
    of, sf = xs.pick(of, 0, 2), xs.pick(sf, 0, NS)
    desc = dict(o1=o1, s1=s1, e1=e1, o2=o2, s2=s2, e2=e2, o3=o3, s3=s3, e3=e3, of=of, sf=sf)
    trail = []
    for o, s, e in conc:
        if o == 2 and e != 0:
            return True  # resolve steps carry no edit
        bad = _step(fns, o, s, e)
        trail.append((("parse-condition", "parse-ahb", "resolve", "resolve-without-expansion+deep-edit")[o], s, e))
        if bad:
            xs.reached()
            return xs.fail(f"history {trail}: {bad}", **desc)
    bad = _step(fns, of, sf, 0)
    xs.reached()
    if bad:
        return xs.fail(f"after history {trail} (step = (call, string index, in-place edit of the returned tree)): {bad}", **desc)
    return True


# strings that a "smarter" cache key might identify: equal up to letter case / whitespace, but not the same expression
TWINS = (
    (0, "[21P]", "[21p]"), (0, "[UB1] U [1]", "[ub1] U [1]"), (0, "[1] U [2]", "[1] u [2]"), (0, "[1] U [2]", "[1]U[2]"), (0, "[1] U [2]", " [1] U [2] "),
    (0, "[12]", "[1 2]"), (0, "([22P0..1] U [3]) X [4]", "([22p0..1] u [3]) x [4]"), (0, "[1] U [2]", "[2] U [1]"), (0, "[1][901]", "[1] [901]"),
    (1, "Muss [1] U [32P]", "Muss [1] u [32p]"), (1, "Muss [1]", "MUSS [1]"), (1, "Muss [1]", "Muss  [1]"), (1, "Muss [1] Kann", "Muss [1] kann"), (1, "X [1]", "x [1]"),
)


def twins(idx: int, swapped: bool) -> bool:
    """
    pre: 0 <= idx < len(TWINS)
    post: _
    """
    xs.path_start()
    fns = setup()
    idx = xs.pick(idx, 0, len(TWINS))
    op, a, b = TWINS[idx]
    order = (b, a) if swapped else (a, b)
    which = "condition" if op == 0 else "ahb"
    for text in order:
        got = exc = None
        try:
            got = fns[op](text)
        except SyntaxError as e:
            exc = e
        except Exception as e:  # pylint:disable=broad-except
            xs.reached()
            return xs.fail(f"history {order}: parsing '{text}' raised {type(e).__name__}: {e}", idx=idx, swapped=swapped)
        with xs.nt():
            try:
                want = env.real_parser(which).parse(text)
            except Exception:  # pylint:disable=broad-except
                want = None
            if want is None:
                msg = None if exc is not None else f"'{text}' (parsed after its near-twin in {order}) returned {show(got)}, a fresh parser rejects it"
            elif exc is not None:
                msg = f"'{text}' (parsed after its near-twin in {order}) was rejected with SyntaxError, a fresh parser returns {show(want)}"
            else:
                msg = None if same(got, want) else f"'{text}' (parsed after its near-twin in {order}) returned {show(got)}, a fresh uncached parse gives {show(want)}"
        if msg:
            xs.reached()
            return xs.fail(msg, idx=idx, swapped=swapped)
    xs.reached()
    return True


RES_STRINGS = ("Muss [5] U [UB3]", "[UB3] O [7]", "X [UB1] U [UB2]", "Muss [UB3] Kann [UB3][901]", "Muss [5] U [UB1]")


def resolve_edit(s1: int, s2: int, kind: int) -> bool:
    """
    pre: kind == FIXK
    pre: 0 <= s1 < len(RES_STRINGS) and 0 <= s2 < len(RES_STRINGS) and 0 <= kind < 4
    post: _
    """
    xs.path_start()
    # a caller resolves an expression (time conditions replaced) and then edits EVERY node of the tree it got; resolving
    # any expression afterwards must give what it gave before
    setup()
    s1, s2, kind = xs.pick(s1, 0, len(RES_STRINGS)), xs.pick(s2, 0, len(RES_STRINGS)), xs.pick(kind, 0, 4)
    a, b = RES_STRINGS[s1], RES_STRINGS[s2]
    try:
        base = detloop.run(parse_expression_including_unresolved_subexpressions(b))
        with xs.nt():
            base_txt = show(base)
        xs.clear_ahbicht_caches()
        first = detloop.run(parse_expression_including_unresolved_subexpressions(a))
        with xs.nt():
            for node in list(first.iter_subtrees()):
                if kind == 0:
                    node.children[:] = [c if isinstance(c, Tree) else Token("CONDITION_KEY", "666") for c in node.children]
                elif kind == 1:
                    node.data = "hacked"
                elif kind == 2:
                    node.children.append(Tree("condition", [Token("CONDITION_KEY", "777")]))
                else:
                    del node.children[1:]
        again = detloop.run(parse_expression_including_unresolved_subexpressions(b))
    except Exception as e:  # pylint:disable=broad-except
        xs.reached()
        return xs.fail(f"resolving '{a}' / '{b}' raised {type(e).__name__}: {e}", s1=s1, s2=s2, kind=kind)
    xs.reached()
    with xs.nt():
        again_txt = show(again)
    if again_txt != base_txt:
        return xs.fail(f"'{b}' resolves to {again_txt} after a caller resolved '{a}' and edited every node of the tree it got (edit kind {kind}); before that it resolved to {base_txt}", s1=s1, s2=s2, kind=kind)
    return True


def eviction(a: int, b: int, c: int, d: int, ea: int, eb: int, ec: int) -> bool:
    """
    pre: 0 <= a < 3 and 0 <= b < 3 and 0 <= c < 3 and 0 <= d < 3
    pre: (FIXA < 0 or a == FIXA) and (FIXB < 0 or b == FIXB)
    pre: 0 <= ea < 3 and 0 <= eb < 3 and 0 <= ec < 3
    post: _
    """
    xs.path_start()
    # scaled-down cache (maxsize 2) with three distinct strings: hits, misses and evictions within four calls
    fns = setup()
    seq = [xs.pick(x, 0, 3) for x in (a, b, c, d)]
    eds = []
    for e in (ea, eb, ec):
        eds.append((0, 2, 3)[xs.pick(e, 0, 3)])
    eds.append(0)
    desc = dict(a=a, b=b, c=c, d=d, ea=ea, eb=eb, ec=ec)
    trail = []
    for s, e in zip(seq, eds):
        text = COND[s]
        try:
            got = fns[0](text)
        except Exception as ex:  # pylint:disable=broad-except
            xs.reached()
            return xs.fail(f"history {trail}: parsing '{text}' raised {type(ex).__name__}", **desc)
        with xs.nt():
            want = env.real_parser("condition").parse(text)
            ok = same(got, want)
        trail.append((s, e))
        if not ok:
            xs.reached()
            return xs.fail(f"cache of size 2, history (string index, edit) {trail}: parse of '{text}' returned {show(got)}, fresh parse gives {show(want)}", **desc)
        apply_edit(got, e)
    xs.reached()
    return True
