"""
Bounded glue for C04 / C05 / C06 / C07: the REAL requirement_constraint_evaluation on selector-built expressions,
on DetLoop, evaluators with symbolic states and yields; the oracle folds the tree the real parser returned.

Module globals set per job:  MODE in {"C04","C06","C07"},  NLEAVES,  CODE_LO/CODE_HI (partition of the shape code).
"""
from typing import Optional

from ahbicht.expressions import InvalidExpressionError
from ahbicht.expressions.format_constraint_expression_evaluation import format_constraint_evaluation
from ahbicht.expressions.requirement_constraint_expression_evaluation import requirement_constraint_evaluation

from vf import detloop, env, refsem, shapes, xs

MODE = "C04"
NLEAVES = 2
CODE_LO = 0
CODE_HI = 1
NKINDS = 5  # leaf kinds used (prefix of shapes.LEAF_KINDS)
ATTACH = 1  # 1: inner nodes may carry an attached format constraint
YMAX = 1


def space_size(nleaves: int, nkinds: int, attach: int) -> int:
    ninner = nleaves - 1
    return len(shapes.SKELETONS[nleaves]) * (3**ninner) * (nkinds**nleaves) * ((2**ninner) if attach else 1)


def decode(code: int):
    ninner = NLEAVES - 1
    bases = [len(shapes.SKELETONS[NLEAVES])] + [3] * ninner + [NKINDS] * NLEAVES + ([2] * ninner if ATTACH else [])
    d = shapes.digits(code, bases)
    skel_i = d[0]
    ops = d[1 : 1 + ninner]
    kinds = d[1 + ninner : 1 + ninner + NLEAVES]
    attach = d[1 + ninner + NLEAVES :] if ATTACH else [0] * ninner
    return skel_i, ops, kinds, attach


def _truth_table(fn, keys):
    rows = []
    for bits in range(2 ** len(keys)):
        sigma = {k: bool((bits >> i) & 1) for i, k in enumerate(keys)}
        rows.append(fn(sigma))
    return rows


VARIANT_FREE = 0
VARIANTS = ((0, 1, 0), (1, 0, 0), (2, 1, 0), (3, 0, 1))  # (spelling, brackets, duplicate rc key)


LO = 0
HI = 1
_CASES = {}


def cases():
    """all in-scope (code, variant, alpha_code, yv) of the current bound, enumerated natively once per configuration"""
    cfg = (NLEAVES, NKINDS, ATTACH, YMAX, VARIANT_FREE, MODE == "C07")
    if cfg in _CASES:
        return _CASES[cfg]
    out = []
    with xs.nt():
        parser = env.real_parser("condition")
        for code in range(space_size(NLEAVES, NKINDS, ATTACH)):
            skel_i, ops, kinds, attach = decode(code)
            for variant in range(4) if VARIANT_FREE else (code % 4,):
                spelling, brackets, dup = VARIANTS[variant]
                b = shapes.build(NLEAVES, skel_i, ops, kinds, attach, spelling, brackets, dup)
                try:
                    tree = parser.parse(b.text)
                except Exception as e:  # pylint:disable=broad-except
                    raise xs.HarnessError(f"selector-built expression {b.text!r} does not parse: {e}") from e
                try:
                    refsem.req(tree, {k: "FULFILLED" for k in b.rc})
                except refsem.OutOfScope:
                    continue
                except refsem.Invalid:
                    pass
                ny = ((YMAX + 1) if b.rc else 1) * ((YMAX + 1) if b.hints else 1)
                if MODE == "C07":
                    ny = 1
                for alpha_code in range(3 ** len(b.rc)):
                    for yv in range(ny):
                        out.append((code, variant, alpha_code, yv))
    _CASES[cfg] = out
    return out


TEXTS = ("[1]U[2]O[1]U[3]", "[1]O[2]U[2]O[3]", "([1]U[1])X[2]U[3]", "[2]U[1]O[2]X[3]U[1]", "[1][901]U[2]O[1]U[3][901]", "[3]O[3]O[1]U[2]", "[2] ∧ [2] ∨ [1] ⊻ [3] ∧ [1]", "[3]U[2]U[1]O[3]U[2]")
TEXT = 0


def glue_text(a0: int, a1: int, a2: int, y: int) -> bool:
    """
    pre: 0 <= a0 < 3 and 0 <= a1 < 3 and 0 <= a2 < 3 and 0 <= y <= 1
    post: _
    """
    xs.path_start()
    # longer expressions in which requirement keys REPEAT (the evaluator is asked once per distinct key or once per occurrence,
    # the builder zips keys and outcomes): every assignment of the three keys
    sel = [xs.pick(a0, 0, 3), xs.pick(a1, 0, 3), xs.pick(a2, 0, 3)]
    y = xs.pick(y, 0, 2)
    text = TEXTS[TEXT]
    alpha = {str(i + 1): env.STATES[sel[i]] for i in range(3)}
    env.setup(rc=alpha, fc={"901": True}, hints={}, yc={"2": y})
    with xs.nt():
        tree = env.real_parser("condition").parse(text)
    exp = refsem.outcome(refsem.req(tree, alpha).value)
    try:
        res = detloop.run(requirement_constraint_evaluation(text))
        got = (res.requirement_constraints_fulfilled, res.requirement_is_conditional)
    except Exception as e:  # pylint:disable=broad-except
        got = ("raised", f"{type(e).__name__}: {e}")
    xs.reached()
    if got != exp:
        return xs.fail(f"'{text}' under { {k: v.name for k, v in alpha.items()} }: (fulfilled, is_conditional) = {got}, compositional semantics gives {exp}", a0=a0, a1=a1, a2=a2, y=y)
    return True


def glue_val(idx: int) -> bool:
    """
    pre: LO <= idx < HI
    post: _
    """
    xs.path_start()
    return _glue(idx, False, False, False)


def glue_fce(idx: int, f0: bool, f1: bool, f2: bool) -> bool:
    """
    pre: LO <= idx < HI
    post: _
    """
    xs.path_start()
    return _glue(idx, f0, f1, f2)


def _glue(idx, f0, f1, f2) -> bool:
    idx = xs.pick(idx, LO, HI)
    with xs.nt():
        code, variant, alpha_code, yv = cases()[idx]
        spelling, brackets, dup = VARIANTS[variant]
        skel_i, ops, kinds, attach = decode(code)
        b = shapes.build(NLEAVES, skel_i, ops, kinds, attach, spelling, brackets, dup)
        tree = env.real_parser("condition").parse(b.text)
        sel = shapes.digits(alpha_code, [3, 3, 3, 3])
        ycap = (YMAX + 1) if b.rc else 1
        y0, y1 = (yv % ycap, yv // ycap)
    fbits = [f0, f1, f2]
    alpha = {k: env.STATES[sel[i]] for i, k in enumerate(b.rc)}
    hints = {k: f"Hinweis {k}" for k in b.hints}
    sigma = {k: (fbits[i] if i < 3 else True) for i, k in enumerate(b.fc)}
    yc = {}
    if b.rc:
        yc[b.rc[0]] = y0
    if b.hints:
        yc[b.hints[0]] = y1
    env.setup(rc=alpha, fc=sigma, hints=hints, yc=yc)

    # ---- oracle (independent of the code under test): fold the real parse tree
    try:
        ref = refsem.req(tree, alpha)
        expect = ("value", ref.value)
    except refsem.Invalid as inv:
        expect = ("invalid", str(inv))
    except refsem.OutOfScope:
        return True

    # ---- the call under test
    try:
        got = detloop.run(requirement_constraint_evaluation(b.text))
        outcome = ("ok", got)
    except InvalidExpressionError as e:
        outcome = ("invalid", e)
    except Exception as e:  # pylint:disable=broad-except
        outcome = ("raised", e)
    xs.reached()
    desc = dict(idx=idx) if MODE != "C07" else dict(idx=idx, f0=f0, f1=f1, f2=f2)
    states = {k: v.name for k, v in alpha.items()}

    if MODE == "C06":
        if expect[0] == "invalid" and outcome[0] != "invalid":
            return xs.fail(f"'{b.text}' is structurally invalid ({expect[1]}) but evaluation under {states} did not raise InvalidExpressionError: {outcome[0]} {outcome[1]!r}", **desc)
        if expect[0] == "value" and outcome[0] != "ok":
            return xs.fail(f"'{b.text}' is structurally valid but evaluation under {states} raised {type(outcome[1]).__name__}: {outcome[1]}", **desc)
        return True

    if expect[0] == "invalid":
        return True  # validity is C06's subject
    if outcome[0] != "ok":
        if MODE == "C04":
            return xs.fail(f"valid expression '{b.text}' under {states}: evaluation raised {type(outcome[1]).__name__}: {outcome[1]}", **desc)
        return True
    res = outcome[1]

    if MODE == "C04":
        exp = refsem.outcome(expect[1])
        gotpair = (res.requirement_constraints_fulfilled, res.requirement_is_conditional)
        if gotpair != exp:
            return xs.fail(f"'{b.text}' under {states}: (fulfilled, is_conditional) = {gotpair}, compositional semantics gives {expect[1]} -> {exp}", **desc)
        if b.rc:
            # the same parsed tree object evaluated again under another assignment (callers keep trees): evaluation must not
            # leave anything behind in the tree
            from ahbicht.expressions.condition_expression_parser import parse_condition_expression_to_tree

            kept = parse_condition_expression_to_tree(b.text)
            first = detloop.run(requirement_constraint_evaluation(kept))
            alpha2 = {k: env.STATES[(sel[i] + 1) % 3] for i, k in enumerate(b.rc)}
            env.setup(rc=alpha2, fc=sigma, hints=hints, yc=yc)
            try:
                second = detloop.run(requirement_constraint_evaluation(kept))
                pair2 = (second.requirement_constraints_fulfilled, second.requirement_is_conditional)
            except Exception as e:  # pylint:disable=broad-except
                pair2 = ("raised", type(e).__name__)
            exp2 = refsem.outcome(refsem.req(tree, alpha2).value)
            if (first.requirement_constraints_fulfilled, first.requirement_is_conditional) != exp or pair2 != exp2:
                return xs.fail(f"'{b.text}': one parsed tree evaluated twice — under {states}: {(first.requirement_constraints_fulfilled, first.requirement_is_conditional)} (expected {exp}), then under { {k: v.name for k, v in alpha2.items()} }: {pair2} (expected {exp2})", **desc)
        return True

    if MODE == "C07":
        fce: Optional[str] = res.format_constraints_expression
        with xs.nt():
            keys = list(b.fc)
            exp_a = _truth_table(lambda sg: refsem.fc_read(tree, alpha, sg, False), keys)
            exp_b = _truth_table(lambda sg: refsem.fc_read(tree, alpha, sg, True), keys)
            if not fce:
                if all(v is None for v in exp_a) or all(v is None for v in exp_b):
                    verdict = None
                else:
                    verdict = f"no format-constraint expression returned, direct reading is not empty"
            else:
                try:
                    ftree = env.real_parser("condition").parse(fce)
                    fkeys = refsem.fc_keys(ftree)
                    foreign = [k for k in fkeys if k not in keys]
                    got_t = _truth_table(lambda sg: refsem.fc_bool(ftree, sg), keys) if not foreign else None
                    if foreign:
                        verdict = f"collected expression '{fce}' contains keys {foreign} that are not format constraints of the source"
                    elif got_t == exp_a or got_t == exp_b:
                        verdict = None
                    else:
                        verdict = f"collected expression '{fce}' has truth table {got_t} over {keys}; direct reading gives {exp_a}" + (f" (or {exp_b})" if exp_b != exp_a else "")
                except refsem.OutOfScope as o:
                    verdict = f"collected expression '{fce}' is not a pure U/O/X expression over format-constraint keys: {o}"
                except Exception as e:  # pylint:disable=broad-except
                    verdict = f"collected expression '{fce}' is not well-formed: {type(e).__name__}"
        if verdict:
            return xs.fail(f"'{b.text}' under {states}: {verdict}", **desc)
        # feedability: the real format_constraint_evaluation accepts it and computes its Boolean value (sigma symbolic)
        try:
            fres = detloop.run(format_constraint_evaluation(fce))
        except Exception as e:  # pylint:disable=broad-except
            return xs.fail(f"'{b.text}' under {states}: collected expression '{fce}' cannot be fed to format_constraint_evaluation: {type(e).__name__}: {e}", **desc)
        if fce:
            with xs.nt():
                ftree2 = env.real_parser("condition").parse(fce)
            want = refsem.fc_bool(ftree2, sigma)
            if bool(fres.format_constraints_fulfilled) != bool(want):
                return xs.fail(f"'{b.text}': format_constraint_evaluation('{fce}') = {fres.format_constraints_fulfilled} under {sigma}, Boolean value is {want}", **desc)
        return True
    raise xs.HarnessError(f"unknown MODE {MODE}")
