"""
C12 — results do not depend on the completion order of asynchronous evaluators (XH + DetLoop, symbolic yields).
"""
import asyncio
from contextvars import ContextVar

from ahbicht.content_evaluation.evaluationdatatypes import EvaluatableData
from ahbicht.content_evaluation.evaluator_factory import create_content_evaluation_result_based_evaluators
from ahbicht.expressions.ahb_expression_evaluation import evaluate_ahb_expression_tree
from ahbicht.expressions.expression_resolver import parse_expression_including_unresolved_subexpressions
from ahbicht.models.condition_nodes import ConditionFulfilledValue as CFV
from ahbicht.models.condition_nodes import EvaluatedFormatConstraint
from ahbicht.models.content_evaluation_result import ContentEvaluationResult, ContentEvaluationResultSchema
from ahbicht.utility_functions import gather_if_necessary

from vf import detloop, env, xs

YMAX = 2
STATES = 0  # index into STATE_SETS
STATE_SETS = ((1, 0, 0), (0, 1, 2), (1, 1, 0), (2, 0, 1), (1, 1, 1), (1, 2, 0), (0, 0, 1), (0, 1, 0))
RCONLY = 0
YUMAX = 2
EXPRS = ("Muss [1] U [501] Soll [2][901] Kann [3] O [1]", "Muss ([1] O [2]) U [3][902] Soll [3] X [1][901]", "X [1][901] U ([2] O [3]) U [502]", "Muss [1] Soll [2] Kann [3]")
EXPR = 0
FIXY1 = -1
FIX3 = (0, 0, 0)
NS = 2
NMAX = 2


def _summary(r):
    rc, fc = r.requirement_constraint_evaluation_result, r.format_constraint_evaluation_result
    return (getattr(r.requirement_indicator, "name", None), rc.requirement_constraints_fulfilled, rc.hints, rc.format_constraints_expression, fc.format_constraints_fulfilled, fc.error_message)


def pipeline(y1: int, y2: int, y3: int, yf: int, yg: int, yh: int) -> bool:
    """
    pre: (RCONLY == 0 or (yf == 0 and yg == 0 and yh == 0)) and (FIXY1 < 0 or y1 == FIXY1) and 0 <= y1 <= YMAX and 0 <= y2 <= YMAX and 0 <= y3 <= YMAX and 0 <= yf <= YMAX and 0 <= yg <= YMAX and 0 <= yh <= YMAX
    post: _
    """
    xs.path_start()
    ys = {"1": xs.pick(y1, 0, YMAX + 1), "2": xs.pick(y2, 0, YMAX + 1), "3": xs.pick(y3, 0, YMAX + 1), "901": xs.pick(yf, 0, YMAX + 1), "902": xs.pick(yg, 0, YMAX + 1), "501": xs.pick(yh, 0, YMAX + 1), "502": 0}
    text = EXPRS[EXPR]
    st = STATE_SETS[STATES]
    alpha = {str(i + 1): env.STATES[st[i]] for i in range(3)}
    fcv = {"901": True, "902": False}
    hints = {"501": "Hinweis A", "502": "Hinweis B"}
    log0 = env.setup(rc=alpha, fc=fcv, hints=hints, yc={})
    tree = detloop.run(parse_expression_including_unresolved_subexpressions(text))
    try:
        base = _summary(detloop.run(evaluate_ahb_expression_tree(tree)))
    except Exception as e:  # pylint:disable=broad-except
        raise xs.HarnessError(f"baseline evaluation failed: {type(e).__name__}: {e}") from e
    log = env.setup(rc=alpha, fc=fcv, hints=hints, yc=ys)
    tree = detloop.run(parse_expression_including_unresolved_subexpressions(text))
    try:
        got = _summary(detloop.run(evaluate_ahb_expression_tree(tree)))
    except Exception as e:  # pylint:disable=broad-except
        xs.reached()
        return xs.fail(f"'{text}' with yields {ys}: raised {type(e).__name__}: {e}", y1=y1, y2=y2, y3=y3, yf=yf, yg=yg, yh=yh)
    xs.reached()
    if got != base:
        return xs.fail(f"'{text}' under { {k: v.name for k, v in alpha.items()} }: result {got} with evaluator yields {ys}, but {base} when nothing yields", y1=y1, y2=y2, y3=y3, yf=yf, yg=yg, yh=yh)
    for key, val in log.rc:
        if val is not alpha[key]:
            return xs.fail(f"requirement key {key} was paired with {val}", y1=y1, y2=y2, y3=y3, yf=yf, yg=yg, yh=yh)
    return True


def gather_mask(k: int, a0: bool, a1: bool, a2: bool, a3: bool, y0: int, y1: int, y2: int, y3: int) -> bool:
    """
    pre: 1 <= k <= 4
    pre: 0 <= y0 <= YMAX and 0 <= y1 <= YMAX and 0 <= y2 <= YMAX and 0 <= y3 <= YMAX
    post: _
    """
    xs.path_start()
    k = xs.pick(k, 1, 5)
    aws, ys = [a0, a1, a2, a3][:k], [y0, y1, y2, y3][:k]

    async def later(i):
        await detloop.yields(ys[i])
        return ("value", i)

    items = []
    for i in range(k):
        if aws[i]:
            items.append(later(i))
        else:
            if ys[i] != 0:
                return True
            items.append(("value", i))
    try:
        res = detloop.run(gather_if_necessary(items))
    except Exception as e:  # pylint:disable=broad-except
        xs.reached()
        return xs.fail(f"gather_if_necessary raised {type(e).__name__}: {e}", k=k, a0=a0, a1=a1, a2=a2, a3=a3, y0=y0, y1=y1, y2=y2, y3=y3)
    xs.reached()
    if list(res) != [("value", i) for i in range(k)]:
        return xs.fail(f"gather_if_necessary with awaitable mask {xs.R(aws)} and yields {xs.R(ys)} returned {res}", k=k, a0=a0, a1=a1, a2=a2, a3=a3, y0=y0, y1=y1, y2=y2, y3=y3)
    return True


def evaluators(y0: int, y1: int, y2: int, dup: bool) -> bool:
    """
    pre: 0 <= y0 <= YMAX and 0 <= y1 <= YMAX and 0 <= y2 <= YMAX
    post: _
    """
    xs.path_start()
    ys = [xs.pick(y0, 0, YMAX + 1), xs.pick(y1, 0, YMAX + 1), xs.pick(y2, 0, YMAX + 1)]
    rck, fck, hk = ["7", "3", "11"], ["950", "901", "977"], ["510", "501", "599"]
    if dup:
        rck, fck, hk = rck + ["7"], fck + ["950"], hk + ["510"]
    alpha = {"7": CFV.FULFILLED, "3": CFV.UNFULFILLED, "11": CFV.UNKNOWN}
    fcv = {"950": True, "901": False, "977": True}
    hints = {"510": "h510", "501": "h501", "599": "h599"}
    yc = {}
    for i in range(3):
        yc[rck[i]] = ys[i]
        yc[fck[i]] = ys[(i + 1) % 3]
        yc[hk[i]] = ys[(i + 2) % 3]
    env.setup(rc=alpha, fc=fcv, hints=hints, yc=yc)
    import inject

    from ahbicht.content_evaluation.token_logic_provider import TokenLogicProvider

    tlp = inject.instance(TokenLogicProvider)
    rc_ev, fc_ev, hp = tlp.get_rc_evaluator(env.FMT, env.FV), tlp.get_fc_evaluator(env.FMT, env.FV), tlp.get_hints_provider(env.FMT, env.FV)
    try:
        r1 = detloop.run(rc_ev.evaluate_conditions(condition_keys=list(rck), evaluatable_data=env.default_data()))
        r2 = detloop.run(fc_ev.evaluate_format_constraints(list(fck)))
        r3 = detloop.run(hp.get_hints(list(hk)))
    except Exception as e:  # pylint:disable=broad-except
        xs.reached()
        return xs.fail(f"raised {type(e).__name__}: {e}", y0=y0, y1=y1, y2=y2, dup=dup)
    xs.reached()
    d = dict(y0=y0, y1=y1, y2=y2, dup=dup)
    if {k: v for k, v in r1.items()} != alpha:
        return xs.fail(f"evaluate_conditions({rck}) with yields {ys} = {r1}, bound values {alpha}", **d)
    if {k: v.format_constraint_fulfilled for k, v in r2.items()} != fcv:
        return xs.fail(f"evaluate_format_constraints({fck}) with yields {ys} = {r2}, bound values {fcv}", **d)
    if {k: v.hint for k, v in r3.items()} != hints or any(k != v.condition_key for k, v in r3.items()):
        return xs.fail(f"get_hints({hk}) with yields {ys} = {r3}, bound values {hints}", **d)
    return True


# ---------------------------------------------------------------------------------------------------------------------
DATA: ContextVar = ContextVar("vf_c12_cer", default=None)
_SCHEMA = ContentEvaluationResultSchema()


def _provider():
    return EvaluatableData(body=DATA.get(), edifact_format=env.FMT, edifact_format_version=env.FV)


def _cer(s1, s2, fc):
    return ContentEvaluationResult(
        hints={"501": "Hinweis A"},
        format_constraints={"901": EvaluatedFormatConstraint(format_constraint_fulfilled=fc, error_message=None if fc else "901 nicht erfuellt")},
        requirement_constraints={"1": env.STATES[s1], "2": env.STATES[s2]},
        packages={},
    )


def concurrent(a1: int, a2: int, b1: int, b2: int, fa: bool, fb: bool, off: int, n: int) -> bool:
    """
    pre: a1 == FIX3[0] and a2 == FIX3[1] and b1 == FIX3[2] and 0 <= b2 < NS and 0 <= off <= 2 and 2 <= n <= NMAX and fa and not fb
    post: _
    """
    xs.path_start()
    # n concurrent evaluations whose EvaluatableData comes from context-local storage; the real ContentEvaluationResult-based evaluators
    a1, a2, b1, b2, off, n = FIX3[0], FIX3[1], FIX3[2], xs.pick(b2, 0, NS), xs.pick(off, 0, 3), xs.pick(n, 2, NMAX + 1)
    fa, fb = True, False
    text = EXPRS[0].replace("[3]", "[2]")
    with xs.nt():
        env.install_parser_proxies()
        provs = list(create_content_evaluation_result_based_evaluators(env.FMT, env.FV))
        env.configure(provs, _provider)
        bodies = [_SCHEMA.dump(_cer(a1, a2, fa)), _SCHEMA.dump(_cer(b1, b2, fb)), _SCHEMA.dump(_cer(a2, b1, fa))][:n]

    async def one(body, delay):
        DATA.set(body)
        await detloop.yields(delay)
        tree = await parse_expression_including_unresolved_subexpressions(text)
        return _summary(await evaluate_ahb_expression_tree(tree))

    try:
        solo = [detloop.run(one(b, 0)) for b in bodies]
    except Exception as e:  # pylint:disable=broad-except
        raise xs.HarnessError(f"solo evaluation failed: {type(e).__name__}: {e}") from e

    async def both():
        return await asyncio.gather(*[one(b, (off * i) % 3) for i, b in enumerate(bodies)])

    d = dict(a1=a1, a2=a2, b1=b1, b2=b2, fa=fa, fb=fb, off=off, n=n)
    try:
        got = detloop.run(both())
    except Exception as e:  # pylint:disable=broad-except
        xs.reached()
        return xs.fail(f"concurrent evaluations raised {type(e).__name__}: {e}", **d)
    xs.reached()
    if list(got) != solo:
        return xs.fail(f"{n} concurrent evaluations of '{text}' with context-local data (start offsets {[(off * i) % 3 for i in range(n)]}): results {list(got)}; each on its own gives {solo}", **d)
    return True


def concurrent_user(a1: int, a2: int, b1: int, b2: int, ya: int, yb: int, off: int) -> bool:
    """
    pre: 0 <= a1 < 3 and 0 <= a2 < 3 and 0 <= b1 < 3 and 0 <= b2 < 3 and 0 <= ya <= YUMAX and 0 <= yb <= YUMAX and 0 <= off <= 1
    pre: FIX3[0] < 0 or (a1 == FIX3[0] and a2 == FIX3[1] and b1 == FIX3[2])
    post: _
    """
    xs.path_start()
    # two concurrent evaluations; a user-written RcEvaluator (evaluate_<key> coroutine methods that really suspend) judges by the
    # evaluatable data handed to it, which comes from context-local storage
    a1, a2, b1, b2 = xs.pick(a1, 0, 3), xs.pick(a2, 0, 3), xs.pick(b1, 0, 3), xs.pick(b2, 0, 3)
    ya, yb, off = xs.pick(ya, 0, YUMAX + 1), xs.pick(yb, 0, YUMAX + 1), xs.pick(off, 0, 2)
    from ahbicht.content_evaluation.rc_evaluators import RcEvaluator

    text = "Muss [1] U [2] Soll [2] Kann [1] O [2]"
    log = env.Log()
    with xs.nt():
        env.install_parser_proxies()

        def mk(key):
            async def ev(self, evaluatable_data, context):
                body = evaluatable_data.body
                await detloop.yields(body["yields"])
                return env.STATES[body[key]]

            return ev

        cls = type("UserRc", (RcEvaluator,), {"evaluate_1": mk("1"), "evaluate_2": mk("2"), "_get_default_context": lambda self: None})
        rc = cls()
        rc.edifact_format, rc.edifact_format_version = env.FMT, env.FV
        env.configure([rc, env.make_fc_evaluator({}, {}, log), env.YHints({}, {}, log), env.YResolver({}, [], log)], _provider)
        bodies = [{"1": a1, "2": a2, "yields": ya}, {"1": b1, "2": b2, "yields": yb}]

    async def one(body, delay):
        DATA.set(body)
        await detloop.yields(delay)
        tree = await parse_expression_including_unresolved_subexpressions(text)
        return _summary(await evaluate_ahb_expression_tree(tree))

    try:
        solo = [detloop.run(one(b, 0)) for b in bodies]
    except Exception as e:  # pylint:disable=broad-except
        raise xs.HarnessError(f"solo evaluation failed: {type(e).__name__}: {e}") from e

    async def both():
        return await asyncio.gather(one(bodies[0], 0), one(bodies[1], off))

    d = dict(a1=a1, a2=a2, b1=b1, b2=b2, ya=ya, yb=yb, off=off)
    try:
        got = detloop.run(both())
    except Exception as e:  # pylint:disable=broad-except
        xs.reached()
        return xs.fail(f"concurrent evaluations raised {type(e).__name__}: {e}", **d)
    xs.reached()
    if list(got) != solo:
        return xs.fail(f"two concurrent evaluations of '{text}' with a user evaluator judging context-local data {bodies} (second started {off} turns later): results {list(got)}; each on its own gives {solo}", **d)
    return True
