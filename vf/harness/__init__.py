import ahbicht.content_evaluation  # noqa: F401  -- import order: avoids the circular import inside ahbicht.expressions
