"""
C02 (b) exception plumbing with a NONDETERMINISTIC Lark stub, (c) concrete strings through all four entry points.
"""
from lark import Token, Tree

import ahbicht.expressions.ahb_expression_parser as aep
import ahbicht.expressions.condition_expression_parser as cep
from ahbicht.content_evaluation import is_valid_expression
from ahbicht.expressions.ahb_expression_parser import parse_ahb_expression_to_single_requirement_indicator_expressions
from ahbicht.expressions.condition_expression_parser import parse_condition_expression_to_tree
from ahbicht.expressions.expression_resolver import parse_expression_including_unresolved_subexpressions

from vf import detloop, env, xs
from vf.harness import valid_glue

LO = 0
HI = 1
_EXC = {}
_CTR = [0]


def _fresh_input() -> str:
    """a string never seen by the lru caches (natively the cache is active; CrossHair bypasses it)"""
    _CTR[0] += 1
    return f"stub input {_CTR[0]}"


def _capture():
    """real UnexpectedEOF / UnexpectedCharacters instances, produced by the real parser once (untraced)"""
    if _EXC:
        return _EXC
    p = env.real_parser("condition")
    for name, s in (("eof", "[1] U"), ("chars", "x"), ("type", None)):
        try:
            p.parse(s)
        except Exception as e:  # pylint:disable=broad-except
            _EXC[name] = e
    if set(_EXC) != {"eof", "chars", "type"}:
        raise xs.HarnessError(f"could not obtain the three documented parse failures from the real parser: {list(_EXC)}")
    return _EXC


class StubParser:
    """returns a canned tree or raises one of the exceptions Lark is documented to raise — chosen by the harness"""

    def __init__(self, behaviour: int, tree):
        self.behaviour, self.tree, self.calls = behaviour, tree, 0

    def parse(self, text, *a, **k):
        self.calls += 1
        if self.behaviour == 0:
            return self.tree
        raise _capture()[("eof", "chars", "type")[self.behaviour - 1]]


def _outcome(thunk):
    try:
        r = thunk()
    except SyntaxError:
        return "SyntaxError"
    except Exception as e:  # pylint:disable=broad-except
        return f"raised {type(e).__module__}.{type(e).__name__}"
    return "tree" if isinstance(r, Tree) else ("tuple", r) if isinstance(r, tuple) else f"returned {type(r).__name__}"


def plumbing(entry: int, ahb_beh: int, cond_beh: int) -> bool:
    """
    pre: 0 <= entry < 4 and 0 <= ahb_beh < 4 and 0 <= cond_beh < 4
    post: _
    """
    xs.path_start()
    entry, ahb_beh, cond_beh = xs.pick(entry, 0, 4), xs.pick(ahb_beh, 0, 4), xs.pick(cond_beh, 0, 4)
    with xs.nt():
        _capture()
        names = []
        for mod in (cep, aep):
            found = env._parser_attrs(mod)
            if len(found) != 1:
                raise xs.Inconclusive(f"{mod.__name__}: expected exactly one module-level Lark object to stub, found {found}; the assembled strings still go through the real parsers")
            names.append(found[0])
        cname, aname = names
        saved = (getattr(cep, cname), getattr(aep, aname))
        ctree = Tree("condition", [Token("CONDITION_KEY", "1")])
        atree = Tree("ahb_expression", [Tree("single_requirement_indicator_expression", [Token("MODAL_MARK", "Muss"), Token("CONDITION_EXPRESSION", _fresh_input())])])
        cstub, astub = StubParser(cond_beh, ctree), StubParser(ahb_beh, atree)
        setattr(cep, cname, cstub)
        setattr(aep, aname, astub)
        text = _fresh_input()
        env.configure([valid_glue._Rc(0), valid_glue._Fc(0), valid_glue._Hints(), env.YResolver({}, [], env.Log())])
    try:
        if entry == 0:
            got = _outcome(lambda: parse_condition_expression_to_tree(text))
        elif entry == 1:
            got = _outcome(lambda: parse_ahb_expression_to_single_requirement_indicator_expressions(text))
        elif entry == 2:
            got = _outcome(lambda: detloop.run(parse_expression_including_unresolved_subexpressions(text)))
        else:
            got = _outcome(lambda: detloop.run(is_valid_expression(text, valid_glue.CER.set)))
    finally:
        setattr(cep, cname, saved[0])
        setattr(aep, aname, saved[1])
    xs.reached()
    desc = f"entry={('condition parser', 'AHB parser', 'resolver', 'is_valid_expression')[entry]}, AHB parse {('returns a tree', 'raises UnexpectedEOF', 'raises UnexpectedCharacters', 'raises TypeError')[ahb_beh]}, condition parse {('returns a tree', 'raises UnexpectedEOF', 'raises UnexpectedCharacters', 'raises TypeError')[cond_beh]}"
    if entry in (0, 1) and (cstub.calls if entry == 0 else astub.calls) == 0:
        raise xs.Inconclusive("stub parser was never called: the entry point no longer goes through the module-level Lark object; the assembled strings still go through the real parsers")
    if entry < 3:
        if got not in ("tree", "SyntaxError"):
            return xs.fail(f"{desc}: outcome is '{got}', expected a tree or SyntaxError", entry=entry, ahb_beh=ahb_beh, cond_beh=cond_beh)
        # a failing parse must not be turned into a tree
        if entry == 0 and (cond_beh != 0) != (got == "SyntaxError"):
            return xs.fail(f"{desc}: outcome '{got}'", entry=entry, ahb_beh=ahb_beh, cond_beh=cond_beh)
        if entry == 1 and (ahb_beh != 0) != (got == "SyntaxError"):
            return xs.fail(f"{desc}: outcome '{got}'", entry=entry, ahb_beh=ahb_beh, cond_beh=cond_beh)
        if entry == 2 and cond_beh != 0 and got != "SyntaxError":
            return xs.fail(f"{desc}: the condition part does not parse but the resolver's outcome is '{got}'", entry=entry, ahb_beh=ahb_beh, cond_beh=cond_beh)
        return True
    # is_valid_expression: (False, message) whenever the resolver raised SyntaxError; never an exception
    if ahb_beh != 0 and cond_beh == 0:
        return True  # = a bare condition expression: not a documented input of is_valid_expression (DESIGN §C06)
    if not (isinstance(got, tuple) and got[0] == "tuple"):
        return xs.fail(f"{desc}: is_valid_expression ended with '{got}' instead of returning (bool, message)", entry=entry, ahb_beh=ahb_beh, cond_beh=cond_beh)
    res = got[1]
    if cond_beh != 0 and not (res[0] is False and isinstance(res[1], str)):
        return xs.fail(f"{desc}: is_valid_expression returned {res!r}, expected (False, message)", entry=entry, ahb_beh=ahb_beh, cond_beh=cond_beh)
    return True


# ---------------------------------------------------------------------------------------------------------------------
PREFIX = (("", "none"), ("Muss ", "mm"), ("muss", "mm"), ("M", "mm"), ("Soll\t", "mm"), ("k ", "mm"), ("X", "po"), ("O ", "po"), ("U", "po"))
WELL = ("[1]", "[1] U [2]", "([1]O[2])[901]", "[3P]∧[UB1]", "[17P1..5] ⊻ [2]", " [1]\t")
MALFORMED = ("[1] U", "([1]", "[1])", "[]", "[1] [", "[P1]", "[1]U U[2]", "1", "[1] O )", "[1P1..0]", "[UB4]", "()", "[1]∧", "∧[1]", "[٣]", "[1P٣..5]", "[1] % [2]")
GARBAGE = ("foo", "", "   ", "Mus[2]", "Muss[2]C[3]", "[1] § [2]", "Muss Muss", "\x00", "M[1]S", "%d", "Muss [100%]", "X [1] %s [2]", "{0}", "Muss {", "[1]\\", "%(x)s")


def string_cases():
    out = []
    for p, kind in PREFIX:
        for c in WELL:
            out.append((p + c, kind, "well"))
        for c in MALFORMED:
            out.append((p + c, kind, "mal"))
    for gbg in GARBAGE:
        out.append((gbg, "garbage", "garbage"))
    # several parts / trailing bare mark with a malformed part
    out += [("Muss [1] Soll [2] U", "mm", "mal"), ("Muss [1] U Soll [2]", "mm", "mal"), ("Muss [1] Kann", "mm", "well"), ("Muss ([1] Kann", "mm", "mal")]
    return out


def strings(idx: int, entry: int) -> bool:
    """
    pre: LO <= idx < HI and 0 <= entry < 4
    post: _
    """
    xs.path_start()
    idx, entry = xs.pick(idx, LO, HI), xs.pick(entry, 0, 4)
    with xs.nt():
        text, pk, ck = string_cases()[idx]
        env.install_parser_proxies()
        env.configure([valid_glue._Rc(0), valid_glue._Fc(0), valid_glue._Hints(), env.YResolver({}, [], env.Log())])
    if entry == 0:
        got = _outcome(lambda: parse_condition_expression_to_tree(text))
    elif entry == 1:
        got = _outcome(lambda: parse_ahb_expression_to_single_requirement_indicator_expressions(text))
    elif entry == 2:
        got = _outcome(lambda: detloop.run(parse_expression_including_unresolved_subexpressions(text)))
    else:
        if pk in ("none",) and ck == "well":
            return True  # bare condition expression: not a documented input of is_valid_expression (DESIGN §C06)
        if ck == "well" and "P" in text:
            return True  # unresolved packages cannot be evaluated (NotImplementedError is documented, C10)
        got = _outcome(lambda: detloop.run(is_valid_expression(text, valid_glue.CER.set)))
    xs.reached()
    name = ("condition parser", "AHB parser", "resolver", "is_valid_expression")[entry]
    if entry < 3:
        if got not in ("tree", "SyntaxError"):
            return xs.fail(f"{name}({text!r}) ended with '{got}', expected a tree or SyntaxError", idx=idx, entry=entry)
        if ck == "garbage":
            return True
        if entry == 0:
            want = "tree" if (pk == "none" and ck == "well") else "SyntaxError"
        elif entry == 2:
            want = "tree" if ck == "well" else "SyntaxError"
        else:
            return True  # the AHB parser alone only checks the indicator structure
        if got != want:
            return xs.fail(f"{name}({text!r}) gives {got}, expected {want} ({'well-formed' if ck == 'well' else 'malformed'} condition part)", idx=idx, entry=entry)
        return True
    if not (isinstance(got, tuple) and got[0] == "tuple"):
        return xs.fail(f"is_valid_expression({text!r}) ended with '{got}' instead of returning (bool, message)", idx=idx, entry=entry)
    res = got[1]
    if ck in ("mal", "garbage") and not (res[0] is False and isinstance(res[1], str)):
        if ck == "garbage":
            return True
        return xs.fail(f"is_valid_expression({text!r}) = {res!r} for a malformed expression, expected (False, message)", idx=idx, entry=entry)
    return True


# ---------------------------------------------------------------------------------------------------------------------
# what was validated before must not matter: a well-formed expression and a malformed one that differs only by whitespace
# INSIDE a token (whitespace is insignificant only between tokens)
# ---------------------------------------------------------------------------------------------------------------------
PAIRS = (
    ("Muss [12] U [3]", "Muss [1 2] U [3]"),
    ("X [UB1] U [7]", "X [U B1] U [7]"),
    ("Muss [12] U [3]", "Mu ss [12] U [3]"),
    ("Muss [3P1..2] O [4]", "Muss [3P1. .2] O [4]"),
    ("Kann [3P] Muss [1]", "Kann [3 P] Muss [1]"),
    # ... or only by the letter case of a case-SENSITIVE token (package marker, time condition)
    ("Muss [5P] U [1]", "Muss [5p] U [1]"),
    ("X [UB1] U [7]", "X [ub1] U [7]"),
    ("Muss [12] U ([3P0..1] O [UB3])", "Muss [12] u ([3p0..1] o [ub3])"),
)


def history_pairs(idx: int, malformed_first: bool) -> bool:
    """
    pre: 0 <= idx < len(PAIRS)
    post: _
    """
    xs.path_start()
    idx = xs.pick(idx, 0, len(PAIRS))
    good, bad = PAIRS[idx]
    xs.REAL_LRU = True  # the parsers' caches really cache during this path and start empty
    xs.clear_ahbicht_caches()
    with xs.nt():
        env.install_parser_proxies()
        env.configure([valid_glue._Rc(0), valid_glue._Fc(0), valid_glue._Hints(), env.YResolver({}, [], env.Log())])
    order = (bad, good) if malformed_first else (good, bad)
    outs = []
    for text in order:
        if "P" in text and text is good:
            outs.append(_outcome(lambda t=text: detloop.run(parse_expression_including_unresolved_subexpressions(t))))
        else:
            outs.append(_outcome(lambda t=text: detloop.run(is_valid_expression(t, valid_glue.CER.set))))
    xs.reached()
    res = dict(zip(order, outs))
    g, b = res[good], res[bad]
    ok_good = g == "tree" or (isinstance(g, tuple) and g[0] == "tuple" and g[1][0] is True)
    ok_bad = isinstance(b, tuple) and b[0] == "tuple" and b[1][0] is False and isinstance(b[1][1], str)
    if not ok_good or not ok_bad:
        return xs.fail(f"validated in the order {order}: well-formed '{good}' -> {g}; malformed near-twin '{bad}' -> {b}, expected (False, message)", idx=idx, malformed_first=malformed_first)
    return True
