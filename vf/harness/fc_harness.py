"""
C08 — format-constraint evaluation.
  fc_step      real FormatConstraintTransformer callbacks; operands EvaluatedFormatConstraint with SYMBOLIC fulfilled/message
  fc_leaf      real FcEvaluator.evaluate_single_format_constraint with an evaluator method returning a symbolic result
  fc_empty     absent / empty expression
  fc_glue      real format_constraint_evaluation on selector-built expressions, SYMBOLIC truth assignment
"""
from typing import Optional

from ahbicht.content_evaluation.fc_evaluators import FcEvaluator, text_to_be_evaluated_by_format_constraint
from ahbicht.expressions.format_constraint_expression_evaluation import FormatConstraintTransformer, format_constraint_evaluation
from ahbicht.models.condition_nodes import EvaluatedFormatConstraint

from vf import detloop, env, refsem, shapes, xs

OP = 0
LO = 0
HI = 1
MAXLEAVES = 3
YMAX_EVERY = 1  # yields are explored for every n-th case only (quick tier)
YMAX = 0
CALLBACKS = ("and_composition", "or_composition", "xor_composition")
_CASES = {}


def fc_step(lf: bool, rf: bool, lm: Optional[str], rm: Optional[str]) -> bool:
    """
    post: _
    """
    xs.path_start()
    l = EvaluatedFormatConstraint(format_constraint_fulfilled=lf, error_message=lm)
    r = EvaluatedFormatConstraint(format_constraint_fulfilled=rf, error_message=rm)
    t = FormatConstraintTransformer({})
    try:
        res = getattr(t, CALLBACKS[OP])(l, r)
    except Exception as e:  # pylint:disable=broad-except
        xs.reached()
        return xs.fail(f"{CALLBACKS[OP]} raised {type(e).__name__}: {e}", lf=lf, rf=rf, lm=lm, rm=rm)
    xs.reached()
    want = (lf and rf) if OP == 0 else ((lf or rf) if OP == 1 else (lf != rf))
    got = res.format_constraint_fulfilled
    if not isinstance(res, EvaluatedFormatConstraint) or bool(got) != bool(want):
        return xs.fail(f"{CALLBACKS[OP]}(fulfilled={lf}, fulfilled={rf}) = {got}, Boolean value is {want}", lf=lf, rf=rf, lm=lm, rm=rm)
    proviso = ((lm is None) == lf) and ((rm is None) == rf)  # every unfulfilled operand carries a message (and only those)
    if proviso and (res.error_message is None) != bool(got):
        return xs.fail(f"{CALLBACKS[OP]}(({lf},{lm!r}), ({rf},{rm!r})) is {'fulfilled' if got else 'unfulfilled'} with error message {res.error_message!r}", lf=lf, rf=rf, lm=lm, rm=rm)
    return True


def fc_leaf(ful: bool, msg: Optional[str], is_async: bool, text: Optional[str]) -> bool:
    """
    post: _
    """
    xs.path_start()
    seen = []
    with xs.nt():
        if is_async:

            async def ev(self, entered_input):
                seen.append(entered_input)
                return EvaluatedFormatConstraint(format_constraint_fulfilled=ful, error_message=msg)

        else:

            def ev(self, entered_input):
                seen.append(entered_input)
                return EvaluatedFormatConstraint(format_constraint_fulfilled=ful, error_message=msg)

        cls = type("LeafFc", (FcEvaluator,), {"evaluate_950": ev})
        inst = cls()

    async def go():
        text_to_be_evaluated_by_format_constraint.set(text)
        return await inst.evaluate_single_format_constraint("950")

    try:
        res = detloop.run(go())
    except Exception as e:  # pylint:disable=broad-except
        xs.reached()
        return xs.fail(f"evaluate_single_format_constraint raised {type(e).__name__}: {e}", ful=ful, msg=msg, is_async=is_async, text=text)
    xs.reached()
    if bool(res.format_constraint_fulfilled) != bool(ful):
        return xs.fail(f"single constraint evaluated to {ful} but {res.format_constraint_fulfilled} is reported", ful=ful, msg=msg, is_async=is_async, text=text)
    if not ful and res.error_message is None:
        return xs.fail("an unfulfilled single constraint leaves evaluate_single_format_constraint without error message", ful=ful, msg=msg, is_async=is_async, text=text)
    if ful and msg is None and res.error_message is not None:
        return xs.fail(f"a fulfilled single constraint got the error message {res.error_message!r}", ful=ful, msg=msg, is_async=is_async, text=text)
    if len(seen) != 1 or seen[0] is not text and seen[0] != text:
        return xs.fail(f"the evaluation method was handed {seen!r} instead of the text to be evaluated {text!r}", ful=ful, msg=msg, is_async=is_async, text=text)
    return True


def fc_empty(which: int) -> bool:
    """
    pre: 0 <= which < 2
    post: _
    """
    xs.path_start()
    env.setup()
    arg = None if which == 0 else ""
    try:
        res = detloop.run(format_constraint_evaluation(arg))
    except Exception as e:  # pylint:disable=broad-except
        xs.reached()
        return xs.fail(f"format_constraint_evaluation({arg!r}) raised {type(e).__name__}", which=which)
    xs.reached()
    if res.format_constraints_fulfilled is not True or res.error_message is not None:
        return xs.fail(f"format_constraint_evaluation({arg!r}) = ({res.format_constraints_fulfilled}, {res.error_message!r}); an absent/empty expression counts as fulfilled", which=which)
    return True


def cases():
    if MAXLEAVES in _CASES:
        return _CASES[MAXLEAVES]
    out = []
    for nl in range(1, MAXLEAVES + 1):
        for sk in range(len(shapes.SKELETONS[nl])):
            for opc in range(3 ** (nl - 1)):
                ops = shapes.digits(opc, [3] * (nl - 1))
                for variant in range(4):
                    spelling, brackets = variant, (variant % 2)
                    if nl == 1 and variant:
                        continue
                    if nl == 4 and variant in (1, 2):
                        continue  # four keys: symbols without brackets and letters with brackets only (budget)
                    b = shapes.build(nl, sk, ops, [5] * nl, [0] * (nl - 1), spelling, brackets, 0)
                    out.append((b.text, tuple(b.fc)))
    out.append(("[901]U[902]O[901]X[902]", ("901", "902")))
    # the same key on both sides of an operator / repeated before another key occurs
    for rep in ("[901]X[901]", "[901]U[901]", "[901]O[901]", "[902]U([901]X[901])", "([901]X[901])O[902]", "[901]U[901]O[902]", "[902]O[902]X[901]", "([901]U[902])X([901]U[903])"):
        out.append((rep, tuple(sorted(set(__import__("re").findall(r"\[(\d+)\]", rep))))))
    out.append(("([901] ∧ [902]) ⊻ ([901] ∨ [903])", ("901", "902", "903")))
    # unbracketed expressions that MIX the letter and the symbol spellings (precedence must not depend on the spelling)
    for mix in ("[901] ∨ [902] U [903]", "[901] X [902] ∨ [903]", "[901] u [902] ⊻ [903]", "[901] ∧ [902] O [903]", "[901] ⊻ [902] U [903] ∨ [904]", "[901] O [902] ∧ [903] X [904]"):
        ks = tuple(sorted(set(__import__("re").findall(r"\[(\d+)\]", mix))))
        out.append((mix, ks))
    _CASES[MAXLEAVES] = out
    return out


def doc_bool(text: str, sigma) -> bool:
    """Boolean value by the DOCUMENTED precedence: independent precedence-climbing parser (vf.props.C01) + fold"""
    from vf.props import C01

    def ev(n):
        if n[0] == "k":
            return sigma[n[1].strip("[]")]
        vals = [ev(c) for c in n[1]]
        if n[0] == "and":
            return all(vals)
        if n[0] == "or":
            return any(vals)
        if n[0] == "xor":
            acc = vals[0]
            for v in vals[1:]:
                acc = acc != v
            return acc
        raise xs.HarnessError(f"node {n[0]} in a format-constraint expression")

    return ev(C01.ref_parse(C01.tokenize(text)))


def fc_glue(idx: int, f0: bool, f1: bool, f2: bool, f3: bool, y: int, nomsg: bool) -> bool:
    """
    pre: LO <= idx < HI and 0 <= y <= YMAX
    post: _
    """
    xs.path_start()
    idx = xs.pick(idx, LO, HI)
    y = xs.pick(y, 0, YMAX + 1)
    with xs.nt():
        text, keys = cases()[idx]
        tree = env.real_parser("condition").parse(text)
    fb = [f0, f1, f2, f3]
    sigma = {k: fb[i] for i, k in enumerate(keys)}
    if y and (nomsg or len(keys) < 3 or (YMAX_EVERY > 1 and idx % YMAX_EVERY)):
        return True  # yields only matter for several suspending evaluation methods
    # completion order = reverse of the request order for the first three keys
    yc = {k: (2 - i) * y for i, k in enumerate(keys[:3])} if keys else {}
    if nomsg:
        # evaluated single constraints WITHOUT error messages (as DictBased/ContentEvaluationResult-based evaluators may
        # deliver them): only the Boolean value is claimed then
        from ahbicht.content_evaluation.fc_evaluators import DictBasedFcEvaluator

        efcs = {k: EvaluatedFormatConstraint(format_constraint_fulfilled=v, error_message=None) for k, v in sigma.items()}
        with xs.nt():
            env.install_parser_proxies()
            dfc = DictBasedFcEvaluator(efcs)
            dfc.edifact_format, dfc.edifact_format_version = env.FMT, env.FV
            log = env.Log()
            env.configure([env.make_rc_evaluator({}, {}, log), dfc, env.YHints({}, {}, log), env.YResolver({}, [], log)])
    else:
        env.setup(fc=sigma, yc=yc)
    try:
        res = detloop.run(format_constraint_evaluation(text))
    except Exception as e:  # pylint:disable=broad-except
        xs.reached()
        return xs.fail(f"format_constraint_evaluation('{text}') raised {type(e).__name__}: {e}", idx=idx, f0=f0, f1=f1, f2=f2, f3=f3, y=y, nomsg=nomsg)
    xs.reached()
    want = refsem.fc_bool(tree, sigma)
    with xs.nt():
        want_doc = doc_bool(text, {k: bool(xs.R(v)) for k, v in sigma.items()})
    got = res.format_constraints_fulfilled
    if bool(want) != bool(want_doc):
        want = want_doc  # the parser grouped the expression against the documented precedence: judge by the documented one
    if bool(got) != bool(want):
        return xs.fail(f"format_constraint_evaluation('{text}') = {got} under {sigma}; Boolean value with the documented precedence is {want}", idx=idx, f0=f0, f1=f1, f2=f2, f3=f3, y=y, nomsg=nomsg)
    if not nomsg and (res.error_message is None) != bool(got):
        return xs.fail(f"format_constraint_evaluation('{text}') under {sigma} is {'fulfilled' if got else 'unfulfilled'} with error message {res.error_message!r}", idx=idx, f0=f0, f1=f1, f2=f2, f3=f3, y=y, nomsg=nomsg)
    return True
