"""
C10 — resolving packages and time conditions is exact bracketed substitution.
The REAL parse_expression_including_unresolved_subexpressions (DetLoop) on selector-built expressions; the package
table is symbolic (each key maps to one of a pool of expressions or to nothing), resolver yields are symbolic.
Oracle: the real parser applied (without any resolution) to the textually substituted string.
"""
import re

from ahbicht.expressions.expression_resolver import parse_expression_including_unresolved_subexpressions

from vf import detloop, env, shapes, xs

LO = 0
HI = 1
FLAGS = 3  # bit0: resolve_packages, bit1: replace_time_conditions
LEVEL = 0
YMAX = 1
YOCC = 2
HISTORY = 1  # 1: the same expression is resolved once before with ANOTHER package table on the SAME resolver instance (real caches active)
PKG_POOL = ("[10]", "[UB3] O [13]", None, "[2P] X [14]", "[11] U [12]", "[15][901]")
NPOOL = 3
LEAVES = ("[5]", "[1P]", "[2P]", "[3P0..4]", "[UB1]", "[UB2]", "[UB3]")
OPS = ("U", "O", "X", "∧", "")
_CASES = {}
UB = {"UB1": "[932]", "UB2": "[934]", "UB3": "([932][492]X[934][493])"}


def cases():
    if LEVEL in _CASES:
        return _CASES[LEVEL]
    conds = []
    for a in LEAVES:
        conds.append(a)
    for i, a in enumerate(LEAVES):
        for j, b in enumerate(LEAVES):
            for o in (OPS[:3] if LEVEL == 0 else OPS):
                if o == "" and not (a.startswith("[5") or b.startswith("[5")):
                    pass
                conds.append(f"{a}{' ' if (i + j) % 2 else ''}{o}{' ' if j % 2 else ''}{b}")
    three = [
        "[1P] O [5] U [2P]", "[1P] U ([5] O [2P])", "([1P] O [5]) U [2P]", "[1P] U [1P] U [1P]", "[1P][2P]", "[1P1..3] X [1P]", "([1P] U [UB1]) O [3P]",
        "[UB3] O [2P] U [UB3]", "[2P] X [1P] O [2P]", "[5] U ([1P] O ([2P] X [3P]))", "[UB1][5] U [UB2][6]", "[3P] U [2P] U [1P]", "([2P])", "[1P] ∧ [UB3] ∨ [1P]",
    ]
    conds += three
    if LEVEL:
        for a in LEAVES[:4]:
            for b in LEAVES[:4]:
                for c in LEAVES[:4]:
                    for o1 in "UOX":
                        for o2 in "UO":
                            conds.append(f"{a} {o1} {b} {o2} {c}")
    out = []
    pre = ("", "Muss ", "X", "kann", "O ")
    for n, c in enumerate(dict.fromkeys(conds)):
        p = pre[n % len(pre)]
        out.append(p + c)
        if n % 7 == 0:
            out.append(f"Muss {c} Soll [7] U {LEAVES[1 + n % 3]} Kann")
    # keep only strings the real (non-resolving) parse accepts — the quantifier is over well-formed expressions
    keep = []
    with xs.nt():
        env.install_parser_proxies()
        for t in out:
            try:
                detloop.run(parse_expression_including_unresolved_subexpressions(t, resolve_packages=False, replace_time_conditions=False))
                keep.append(t)
            except SyntaxError:
                continue
    if len(keep) < 0.9 * len(out):
        raise xs.HarnessError(f"only {len(keep)} of {len(out)} selector-built expressions parse")
    _CASES[LEVEL] = keep
    return keep


def pkg_occurrences(text):
    return re.findall(r"\[(\d+P)(?:\d+\.\.\d+)?\]", text)


def substitute(text, table, do_pkg, do_time):
    """textual substitution of the statement (one level of packages; time conditions everywhere afterwards)"""
    if do_pkg:
        text = re.sub(r"\[(\d+P)(?:\d+\.\.\d+)?\]", lambda m: f"({table[m.group(1)]})", text)
    if do_time:
        text = re.sub(r"\[(UB[123])\]", lambda m: UB[m.group(1)], text)
    return text


def same(a, b) -> bool:
    ta, tb = hasattr(a, "children"), hasattr(b, "children")
    if ta != tb:
        return False
    if not ta:
        return getattr(a, "type", None) == getattr(b, "type", None) and str(a) == str(b) and hasattr(a, "type") and hasattr(b, "type")
    if str(a.data) != str(b.data) or len(a.children) != len(b.children):
        return False
    return all(same(x, y) for x, y in zip(a.children, b.children))


def show(t) -> str:
    if not hasattr(t, "children"):
        return f"{getattr(t, 'type', '?')}:{t}" if hasattr(t, "type") else f"<{type(t).__name__}>"
    return f"{t.data}(" + ", ".join(show(c) for c in t.children) + ")"


def resolve(idx: int, t1: int, t2: int, t3: int, y0: int, y1: int, y2: int) -> bool:
    """
    pre: LO <= idx < HI
    pre: 0 <= t1 < NPOOL and 0 <= t2 < NPOOL and 0 <= t3 < NPOOL
    pre: 0 <= y0 <= YMAX and 0 <= y1 <= YMAX and 0 <= y2 <= YMAX
    post: _
    """
    xs.path_start()
    idx = xs.pick(idx, LO, HI)
    do_pkg, do_time = bool(FLAGS & 1), bool(FLAGS & 2)
    with xs.nt():
        text = cases()[idx]
        occ = pkg_occurrences(text)
        used = sorted(set(occ))
    tsel = {"1P": t1, "2P": t2, "3P": t3}
    table = {}
    if do_pkg:
        for k in used:
            table[k] = PKG_POOL[xs.pick(tsel[k], 0, NPOOL)]
    ys = [y0, y1, y2]
    nocc = min(len(occ), YOCC) if do_pkg else 0
    ysel = [xs.pick(ys[i], 0, YMAX + 1) if i < nocc else 0 for i in range(3)]
    pk = {k: v for k, v in table.items() if v is not None}
    if HISTORY and do_pkg and used:
        # what happened before must not matter: resolve the same string under a different table first (same resolver instance,
        # real lru caches of the code under test active and initially empty)
        xs.REAL_LRU = True
        xs.clear_ahbicht_caches()
        other = {k: "[77] O [78]" for k in ("1P", "2P", "3P")}
        log = env.setup(packages=dict(other), pkg_yields=[])
        try:
            detloop.run(parse_expression_including_unresolved_subexpressions(text, resolve_packages=True, replace_time_conditions=do_time))
        except Exception:  # pylint:disable=broad-except
            pass
        with xs.nt():
            import inject

            from ahbicht.content_evaluation.token_logic_provider import TokenLogicProvider

            res = inject.instance(TokenLogicProvider).get_package_resolver(env.FMT, env.FV)
            res._t.clear()
            res._t.update(pk)
            res._y[:] = list(ysel)
            res._n = 0
    else:
        env.setup(packages=pk, pkg_yields=ysel)
    desc = dict(idx=idx, t1=t1, t2=t2, t3=t3, y0=y0, y1=y1, y2=y2)
    unresolved = [k for k in used if do_pkg and table[k] is None]
    try:
        got = ("tree", detloop.run(parse_expression_including_unresolved_subexpressions(text, resolve_packages=do_pkg, replace_time_conditions=do_time)))
    except NotImplementedError as e:
        got = ("NotImplementedError", str(e))
    except Exception as e:  # pylint:disable=broad-except
        got = ("raised", f"{type(e).__name__}: {e}")
    xs.reached()
    tabs = {k: table[k] for k in used} if do_pkg else "(packages not resolved)"
    if unresolved:
        if got[0] != "NotImplementedError":
            return xs.fail(f"'{text}' with package table {tabs}: package(s) {unresolved} unknown to the resolver, expected NotImplementedError, got {got[0]}: {show(got[1]) if got[0] == 'tree' else got[1]}", **desc)
        return True
    with xs.nt():
        sub = substitute(text, table, do_pkg, do_time)
    try:
        want = detloop.run(parse_expression_including_unresolved_subexpressions(sub, resolve_packages=False, replace_time_conditions=False))
    except Exception as e:  # pylint:disable=broad-except
        raise xs.HarnessError(f"substituted string {sub!r} does not parse: {type(e).__name__}: {e}") from e
    if got[0] != "tree":
        return xs.fail(f"'{text}' with package table {tabs} (resolve_packages={do_pkg}, replace_time_conditions={do_time}): {got[0]} {got[1]}; expected the tree of '{sub}'", **desc)
    with xs.nt():
        ok = same(got[1], want)
        left = [t for t in got[1].scan_values(lambda v: not hasattr(v, "type"))] if ok else []
    if not ok or left:
        return xs.fail(f"'{text}' with package table {tabs} (resolve_packages={do_pkg}, replace_time_conditions={do_time}, resolver yields {ysel[:nocc]}): resolved tree {show(got[1])} differs from the tree of the substituted text '{sub}': {show(want)}", **desc)
    return True


# ---------------------------------------------------------------------------------------------------------------------
# the shipped ContentEvaluationResult-based package resolver: ONE long-lived instance (as registered in the token logic
# provider) answers from whatever content evaluation result the evaluatable data currently carries
# ---------------------------------------------------------------------------------------------------------------------
CER_EXPRS = ("[1P] U [9]", "Muss [2P] O [1P]", "X [1P]", "[5] U ([2P] X [1P0..1])")
CER_TABLES = ({"1P": "[10]"}, {"1P": "[11] O [12]", "2P": "[13]"}, None, {"2P": "[14] U [15]"}, {"1P": "[16][901]", "2P": "[10]"})
CER_IDS = (None, "12345678-1234-5678-1234-567812345678", "87654321-4321-8765-4321-876543218765")
_CER_BODY = [None]
FIXH = (0, 0)


def _cer_provider():
    from ahbicht.content_evaluation.evaluationdatatypes import EvaluatableData

    return EvaluatableData(body=_CER_BODY[0], edifact_format=env.FMT, edifact_format_version=env.FV)


def cer_history(e1: int, ta: int, e2: int, tb: int, with_ids: bool) -> bool:
    """
    pre: e1 == FIXH[0] and ta == FIXH[1]
    pre: 0 <= e1 < len(CER_EXPRS) and 0 <= e2 < len(CER_EXPRS) and 0 <= ta < len(CER_TABLES) and 0 <= tb < len(CER_TABLES)
    post: _
    """
    xs.path_start()
    e1, e2, ta, tb = xs.pick(e1, 0, len(CER_EXPRS)), xs.pick(e2, 0, len(CER_EXPRS)), xs.pick(ta, 0, len(CER_TABLES)), xs.pick(tb, 0, len(CER_TABLES))
    xs.REAL_LRU = True
    xs.clear_ahbicht_caches()
    with xs.nt():
        import uuid

        from ahbicht.content_evaluation.evaluator_factory import create_content_evaluation_result_based_evaluators
        from ahbicht.models.content_evaluation_result import ContentEvaluationResult, ContentEvaluationResultSchema

        env.install_parser_proxies()
        env.configure(list(create_content_evaluation_result_based_evaluators(env.FMT, env.FV)), _cer_provider)
        schema = ContentEvaluationResultSchema()
        # the id is optional: the two results carry no id at all, or two different ones
        idents = [uuid.UUID(CER_IDS[1]), uuid.UUID(CER_IDS[2])] if with_ids else [None, None]
        bodies = [schema.dump(ContentEvaluationResult(hints={}, format_constraints={}, requirement_constraints={}, packages=(None if t is None else dict(t)), id=i)) for t, i in zip((CER_TABLES[ta], CER_TABLES[tb]), idents)]
    d = dict(e1=e1, ta=ta, e2=e2, tb=tb, with_ids=with_ids)
    trail = []
    for text, t, body in ((CER_EXPRS[e1], CER_TABLES[ta], bodies[0]), (CER_EXPRS[e2], CER_TABLES[tb], bodies[1])):
        _CER_BODY[0] = body
        table = dict(t or {})
        try:
            got = ("tree", detloop.run(parse_expression_including_unresolved_subexpressions(text, resolve_packages=True, replace_time_conditions=False)))
        except NotImplementedError as e:
            got = ("NotImplementedError", str(e))
        except Exception as e:  # pylint:disable=broad-except
            got = ("raised", f"{type(e).__name__}: {e}")
        trail.append((text, t))
        with xs.nt():
            missing = [k for k in sorted(set(pkg_occurrences(text))) if k not in table]
            sub = None if missing else substitute(text, table, True, False)
        msg = None
        if missing:
            if got[0] != "NotImplementedError":
                with xs.nt():
                    msg = f"package(s) {missing} are not defined by the current content evaluation result, expected NotImplementedError, got {got[0]}: {show(got[1]) if got[0] == 'tree' else got[1]}"
        else:
            want = detloop.run(parse_expression_including_unresolved_subexpressions(sub, resolve_packages=False, replace_time_conditions=False))
            with xs.nt():
                if got[0] != "tree":
                    msg = f"{got[0]} {got[1]}; expected the tree of '{sub}'"
                elif not same(got[1], want):
                    msg = f"resolved tree {show(got[1])} differs from the tree of the substituted text '{sub}'"
        if msg:
            xs.reached()
            return xs.fail(f"ContentEvaluationResult-based package resolver, one instance, resolutions (expression, packages of the current result) {trail}: {msg}", **d)
    xs.reached()
    return True
