"""C01 XH harness: selector-built condition expressions through the REAL parser (cache included); the grouping of the
returned tree is compared with an independent precedence parser (runs of one operator flattened)."""
from ahbicht.expressions.condition_expression_parser import parse_condition_expression_to_tree

from vf import env, shapes, xs
from vf.props import C01

MAXC = 3
LO = 0
HI = 1
CONN = ("O", "∨", "X", "⊻", "U", "∧", "")
LOWER = {"O": "o", "X": "x", "U": "u"}
OPERANDS = ("[1]", "[2]", "[17P]", "[UB1]", "[3P0..4]", "[901]")
_CASES = {}


def cases():
    if MAXC in _CASES:
        return _CASES[MAXC]
    out = []
    n = 0
    for nc in range(1, MAXC + 1):
        nl = nc + 1
        for sk in shapes.SKELETONS[nl]:
            for code in range(len(CONN) ** nc):
                ops = shapes.digits(code, [len(CONN)] * nc)
                for br in (0, 1):
                    n += 1
                    variant = n % 4
                    st = {"i": 0, "l": 0}

                    def rec(s, top):
                        if s is None:
                            t = OPERANDS[st["l"] % len(OPERANDS)]
                            st["l"] += 1
                            return t
                        op = CONN[ops[st["i"]]]
                        st["i"] += 1
                        if variant == 1:
                            op = LOWER.get(op, op)
                        l, r = rec(s[0], False), rec(s[1], False)
                        sep = " " if variant >= 2 else ""
                        if variant == 3:
                            sep = " \t"
                        txt = f"{l}{sep}{op}{sep}{r}"
                        return f"({txt})" if (br and not top) else txt

                    out.append(rec(sk, True))
    out = sorted(set(out)) + formatted_cases()
    _CASES[MAXC] = out
    return out


def formatted_cases():
    """longer / oddly formatted inputs: doubled and nested brackets around groups, expressions of ten operands with
    whitespace after some operators only (nothing a tokenizer cares about, everything a textual pre-processing does)"""
    out = []
    k = len(CONN)
    for code in range(k**3):
        a, b, c = (CONN[d] for d in shapes.digits(code, [k, k, k]))
        la, lb, lc = (LOWER.get(x, x) if code % 3 == 1 else x for x in (a, b, c))
        out.append(f"(([1][901]){a}([2][902])){b}[3]{c}[4]")
        out.append(f"([4]{a}(([1]{b}[2]){c}[3]))")
        out.append(f"(([1]{la}[2])){lb}([3]{lc}([17P]))")
        pat = code % 3
        sp = lambda op, i: (f" {op} " if (i + pat) % 3 == 0 else (f" {op}" if (i + pat) % 3 == 1 else f"{op}"))  # noqa: E731
        out.append(f"[1]{sp(a, 0)}[2]{sp(b, 1)}[3]{sp(c, 2)}[4]{sp(la, 1)}[5]{sp(lb, 2)}[6]{sp(lc, 0)}[7][901]{sp(a, 2)}([8]{sp(b, 0)}[9])")
    return sorted(set(out))


def parse_case(idx: int) -> bool:
    """
    pre: LO <= idx < HI
    post: _
    """
    xs.path_start()
    idx = xs.pick(idx, LO, HI)
    with xs.nt():
        text = cases()[idx]
        env.install_parser_proxies()
        try:
            ref = C01.ref_parse(C01.tokenize(text))
        except Exception as e:  # pylint:disable=broad-except
            raise xs.HarnessError(f"reference parser rejects {text!r}: {e}") from e
    try:
        tree = parse_condition_expression_to_tree(text)
    except Exception as e:  # pylint:disable=broad-except
        xs.reached()
        return xs.fail(f"well-formed expression '{text}' is rejected: {type(e).__name__}", idx=idx)
    xs.reached()
    with xs.nt():
        real = C01.canon_tree(tree)
    if real != ref:
        return xs.fail(f"'{text}' is parsed as {real}, documented precedence gives {ref}", idx=idx)
    return True
