"""C01 XH harness: selector-built condition expressions through the REAL parser (cache included); the grouping of the
returned tree is compared with an independent precedence parser (runs of one operator flattened)."""
from ahbicht.expressions.condition_expression_parser import parse_condition_expression_to_tree

from vf import env, shapes, xs
from vf.props import C01

MAXC = 3
LO = 0
HI = 1
CONN = ("O", "∨", "X", "⊻", "U", "∧", "")
LOWER = {"O": "o", "X": "x", "U": "u"}
OPERANDS = ("[1]", "[2]", "[17P]", "[UB1]", "[3P0..4]", "[901]")
_CASES = {}


def cases():
    if MAXC in _CASES:
        return _CASES[MAXC]
    out = []
    n = 0
    for nc in range(1, MAXC + 1):
        nl = nc + 1
        for sk in shapes.SKELETONS[nl]:
            for code in range(len(CONN) ** nc):
                ops = shapes.digits(code, [len(CONN)] * nc)
                for br in (0, 1):
                    n += 1
                    variant = n % 4
                    st = {"i": 0, "l": 0}

                    def rec(s, top):
                        if s is None:
                            t = OPERANDS[st["l"] % len(OPERANDS)]
                            st["l"] += 1
                            return t
                        op = CONN[ops[st["i"]]]
                        st["i"] += 1
                        if variant == 1:
                            op = LOWER.get(op, op)
                        l, r = rec(s[0], False), rec(s[1], False)
                        sep = " " if variant >= 2 else ""
                        if variant == 3:
                            sep = " \t"
                        txt = f"{l}{sep}{op}{sep}{r}"
                        return f"({txt})" if (br and not top) else txt

                    out.append(rec(sk, True))
    out = sorted(set(out))
    _CASES[MAXC] = out
    return out


def parse_case(idx: int) -> bool:
    """
    pre: LO <= idx < HI
    post: _
    """
    idx = xs.pick(idx, LO, HI)
    with xs.nt():
        text = cases()[idx]
        env.install_parser_proxies()
        try:
            ref = C01.ref_parse(C01.tokenize(text))
        except Exception as e:  # pylint:disable=broad-except
            raise xs.HarnessError(f"reference parser rejects {text!r}: {e}") from e
    try:
        tree = parse_condition_expression_to_tree(text)
    except Exception as e:  # pylint:disable=broad-except
        xs.reached()
        return xs.fail(f"well-formed expression '{text}' is rejected: {type(e).__name__}", idx=idx)
    xs.reached()
    with xs.nt():
        real = C01.canon_tree(tree)
    if real != ref:
        return xs.fail(f"'{text}' is parsed as {real}, documented precedence gives {ref}", idx=idx)
    return True
