"""
C06 — the REAL is_valid_expression:
  e2e(idx, y)        end-to-end on selector-built AHB expressions; evaluators read the content evaluation result that the
                     setter put into a ContextVar (the documented set-up), yielding y times (symbolic)
  plumbing(...)      real is_valid_expression with parse/evaluate replaced in its namespace by stubs: the stub evaluation
                     raises InvalidExpressionError for a SYMBOLIC subset of the generated results
"""
from contextvars import ContextVar
from typing import Optional

import ahbicht.content_evaluation as ce
from ahbicht.content_evaluation import is_valid_expression
from ahbicht.content_evaluation.fc_evaluators import FcEvaluator
from ahbicht.content_evaluation.rc_evaluators import RcEvaluator
from ahbicht.expressions import InvalidExpressionError
from ahbicht.expressions.hints_provider import HintsProvider

from vf import detloop, env, refsem, shapes, xs
from vf.harness import rc_glue

LO = 0
HI = 1
NLEAVES = 2
NKINDS = 5
ATTACH = 1
YMAX = 1
FY0 = 0
MAXW = 12
FY1 = 0
PREFIXES = ("Muss ", "soll", "X", "K ")
CER: ContextVar = ContextVar("vf_cer", default=None)
_CASES = {}


class _Rc(RcEvaluator):
    def __init__(self, y):
        super().__init__()
        self.y = y
        self.edifact_format, self.edifact_format_version = env.FMT, env.FV

    def _get_default_context(self):
        return None

    async def evaluate_single_condition(self, condition_key, evaluatable_data, context=None):
        await detloop.yields(self.y)
        return CER.get().requirement_constraints[condition_key]


class _Fc(FcEvaluator):
    def __init__(self, y):
        super().__init__()
        self.y = y
        self.edifact_format, self.edifact_format_version = env.FMT, env.FV

    async def evaluate_single_format_constraint(self, condition_key):
        await detloop.yields(self.y)
        return CER.get().format_constraints[condition_key]


class _Hints(HintsProvider):
    def __init__(self):
        super().__init__()
        self.edifact_format, self.edifact_format_version = env.FMT, env.FV

    async def get_hint_text(self, condition_key):
        return CER.get().hints.get(condition_key)


def cases():
    cfg = (NLEAVES, NKINDS, ATTACH, MAXW)
    if cfg in _CASES:
        return _CASES[cfg]
    out = []
    with xs.nt():
        rc_glue.NLEAVES, rc_glue.NKINDS, rc_glue.ATTACH = NLEAVES, NKINDS, ATTACH
        parser = env.real_parser("condition")
        for code in range(rc_glue.space_size(NLEAVES, NKINDS, ATTACH)):
            skel_i, ops, kinds, attach = rc_glue.decode(code)
            for dup in (0, 1):
                spelling, brackets, _ = rc_glue.VARIANTS[code % 3]
                b = shapes.build(NLEAVES, skel_i, ops, kinds, attach, spelling, brackets, dup)
                if dup and b.text == shapes.build(NLEAVES, skel_i, ops, kinds, attach, spelling, brackets, 0).text:
                    continue
                tree = parser.parse(b.text)
                try:
                    refsem.req(tree, {k: "FULFILLED" for k in b.rc})
                    valid = True
                except refsem.OutOfScope:
                    continue
                except refsem.Invalid:
                    valid = False
                if not b.rc and not b.fc:
                    continue  # nothing to enumerate: not claimed either way (DESIGN §C18)
                weight = 3 ** len(set(b.rc)) * 2 ** len(set(b.fc))
                if weight > MAXW:
                    continue
                out.append((PREFIXES[code % len(PREFIXES)] + b.text, valid, weight))
    _CASES[cfg] = out
    return out


def e2e(idx: int, y: int) -> bool:
    """
    pre: LO <= idx < HI and 0 <= y <= YMAX
    post: _
    """
    xs.path_start()
    idx = xs.pick(idx, LO, HI)
    y = xs.pick(y, 0, YMAX + 1)
    with xs.nt():
        expr, valid, _w = cases()[idx]
        env.install_parser_proxies()
        env.configure([_Rc(y), _Fc(y), _Hints(), env.YResolver({}, [], env.Log())])
    try:
        got = detloop.run(is_valid_expression(expr, CER.set))
    except InvalidExpressionError as e:
        got = ("raised", "InvalidExpressionError", str(e))
    except Exception as e:  # pylint:disable=broad-except
        got = ("raised", type(e).__name__, str(e))
    xs.reached()
    if valid and got != (True, None):
        return xs.fail(f"is_valid_expression('{expr}') = {got!r} although the expression is structurally valid", idx=idx, y=y)
    if not valid and not (isinstance(got, tuple) and len(got) == 2 and got[0] is False and isinstance(got[1], str) and got[1]):
        return xs.fail(f"is_valid_expression('{expr}') = {got!r} although the expression is structurally invalid (expected (False, reason))", idx=idx, y=y)
    return True


def plumbing(parse_fails: bool, b0: bool, b1: bool, b2: bool, b3: bool, b4: bool, b5: bool, y0: int, y1: int) -> bool:
    """
    pre: y0 == FY0 and y1 == FY1
    post: _
    """
    xs.path_start()
    faults = [b0, b1, b2, b3, b4, b5]
    seen_sets, evaluated, wrong_ctx = [], [], []
    with xs.nt():
        env.install_parser_proxies()
        tree = env.real_parser("ahb").parse("Muss [1][901]")
        for name in ("parse_expression_including_unresolved_subexpressions", "evaluate_ahb_expression_tree"):
            if not hasattr(ce, name):
                raise xs.HarnessError(f"ahbicht.content_evaluation.{name} not found (refactored?)")
        saved = (ce.parse_expression_including_unresolved_subexpressions, ce.evaluate_ahb_expression_tree)
        from ahbicht.expressions.expression_resolver import AhbExpressionResolverTransformer

        rtree = AhbExpressionResolverTransformer().transform(tree)

    def setter(cer):
        seen_sets.append(cer)
        CER.set(cer)

    async def stub_parse(expression, *a, **k):
        if parse_fails:
            raise SyntaxError("stub: not well-formed")
        return rtree

    async def stub_eval(t):
        mine = CER.get()
        i = len(evaluated)
        evaluated.append(mine)
        await detloop.yields(y0 if i % 2 == 0 else y1)
        if CER.get() is not mine:
            wrong_ctx.append(i)
        if faults[i % 6]:
            raise InvalidExpressionError(error_message=f"stub reason {i}")
        return None

    ce.parse_expression_including_unresolved_subexpressions = stub_parse
    ce.evaluate_ahb_expression_tree = stub_eval
    try:
        try:
            got = detloop.run(is_valid_expression("Muss [1][901]", setter))
        except InvalidExpressionError as e:
            got = ("raised", "InvalidExpressionError")
        except Exception as e:  # pylint:disable=broad-except
            got = ("raised", type(e).__name__, str(e))
    finally:
        ce.parse_expression_including_unresolved_subexpressions, ce.evaluate_ahb_expression_tree = saved
    xs.reached()
    desc = dict(parse_fails=parse_fails, b0=b0, b1=b1, b2=b2, b3=b3, b4=b4, b5=b5, y0=y0, y1=y1)
    if parse_fails:
        if not (isinstance(got, tuple) and got[0] is False and isinstance(got[1], str)):
            return xs.fail(f"SyntaxError at parse must give (False, message), got {got!r}", **desc)
        return True
    n = len(seen_sets)
    if n != 6:
        return xs.fail(f"{n} content evaluation results were handed to the setter, expected 3*2 = 6", **desc)
    if len({id(c) for c in seen_sets}) != 6 or len(evaluated) != 6 or {id(c) for c in evaluated} != {id(c) for c in seen_sets}:
        return xs.fail("generated results and evaluations are not in 1:1 correspondence (a result evaluated twice or not at all, or seen by a foreign evaluation)", **desc)
    if wrong_ctx:
        return xs.fail(f"evaluation(s) {wrong_ctx} saw another evaluation's content evaluation result after yielding", **desc)
    anyfault = any(faults[i % 6] for i in range(6))
    if anyfault and not (isinstance(got, tuple) and got[0] is False and isinstance(got[1], str) and got[1].startswith("stub reason")):
        return xs.fail(f"some evaluation raised InvalidExpressionError but is_valid_expression returned {got!r}", **desc)
    if not anyfault and got != (True, None):
        return xs.fail(f"no evaluation raised but is_valid_expression returned {got!r}", **desc)
    return True


# ---------------------------------------------------------------------------------------------------------------------
# multi-part AHB expressions: an invalid part makes the evaluation raise under EVERY assignment, wherever it stands
# ---------------------------------------------------------------------------------------------------------------------
from ahbicht.expressions.ahb_expression_evaluation import evaluate_ahb_expression_tree as _eval_tree
from ahbicht.expressions.expression_resolver import parse_expression_including_unresolved_subexpressions as _resolve

MULTI = (
    ("Muss [1] Kann [2] O [501]", False),
    ("Muss [2] O [501] Kann [1]", False),
    ("Muss [1] U [2] Soll [1] X [901] Kann [2]", False),
    ("Muss [1] Soll [2] Kann [1] O [2]", True),
    ("Muss [1] Soll [2][901] Kann", True),
    ("Muss [1] Soll [501] O [901] Kann [2]", False),
)
M_LO = 0
M_HI = 1


def multi(idx: int, s1: int, s2: int, f: bool, y: int) -> bool:
    """
    pre: M_LO <= idx < M_HI and 0 <= s1 < 3 and 0 <= s2 < 3 and 0 <= y <= 1
    post: _
    """
    xs.path_start()
    idx, s1, s2, y = xs.pick(idx, M_LO, M_HI), xs.pick(s1, 0, 3), xs.pick(s2, 0, 3), xs.pick(y, 0, 2)
    text, valid = MULTI[idx]
    env.setup(rc={"1": env.STATES[s1], "2": env.STATES[s2]}, fc={"901": f}, hints={"501": "Hinweis 501"}, yc={"1": y})
    try:
        tree = detloop.run(_resolve(text))
        detloop.run(_eval_tree(tree))
        got = "ok"
    except InvalidExpressionError:
        got = "invalid"
    except Exception as e:  # pylint:disable=broad-except
        got = f"raised {type(e).__name__}: {e}"
    xs.reached()
    st = {"1": env.STATES[s1].name, "2": env.STATES[s2].name}
    if valid and got != "ok":
        return xs.fail(f"valid multi-part expression '{text}' under {st}: {got}", idx=idx, s1=s1, s2=s2, f=f, y=y)
    if not valid and got != "invalid":
        return xs.fail(f"'{text}' contains a structurally invalid part; evaluation under {st} must raise InvalidExpressionError whatever the states are, got: {got}", idx=idx, s1=s1, s2=s2, f=f, y=y)
    return True
