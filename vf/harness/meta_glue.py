"""
C05 metamorphic glue: information-only transformations never change the requirement outcome.
A case = (base expression, transformation, position, assignment).  Both expressions go through the REAL
requirement_constraint_evaluation under the same assignment (DetLoop); outcomes must be equal and both valid.
"""
from ahbicht.expressions import InvalidExpressionError
from ahbicht.expressions.requirement_constraint_expression_evaluation import requirement_constraint_evaluation

from vf import detloop, env, refsem, shapes, xs
from vf.harness import rc_glue

LO = 0
HI = 1
NLEAVES = 2
NKINDS = 3
ATTACH = 1
_CASES = {}
OPSYM = {"and_composition": "U", "or_composition": "O", "xor_composition": "X"}
NEW_HINT, NEW_FC = "599", "999"


def to_ast(tree):
    d = str(tree.data)
    if d == "condition":
        return ("k", str(tree.children[0].value))
    if d == "then_also_composition":
        return ("ta", to_ast(tree.children[0]), to_ast(tree.children[1]))
    return (OPSYM[d], to_ast(tree.children[0]), to_ast(tree.children[1]))


def render(a, top=True) -> str:
    if a[0] == "k":
        return f"[{a[1]}]"
    if a[0] == "br":
        return f"({render(a[1])})"
    if a[0] == "ta":
        l, r = render(a[1], False), render(a[2], False)
        if a[1][0] == "ta":
            l = f"({l})"
        if a[2][0] == "ta":
            r = f"({r})"
        return f"{l}{r}"
    s = f"{render(a[1], False)} {a[0]} {render(a[2], False)}"
    return s if top else f"({s})"


def has_rc(a) -> bool:
    if a[0] == "k":
        return refsem.category(a[1]) == "rc"
    if a[0] == "br":
        return has_rc(a[1])
    return has_rc(a[1]) or has_rc(a[2])


def positions(a, path=()):
    yield path, a
    if a[0] in ("U", "O", "X", "ta"):
        yield from positions(a[1], path + (1,))
        yield from positions(a[2], path + (2,))


def replace(a, path, new):
    if not path:
        return new
    lst = list(a)
    lst[path[0]] = replace(a[path[0]], path[1:], new)
    return tuple(lst)


def variants(a):
    """(name, transformed ast) for every position where a transformation of the statement applies"""
    out = []
    for path, sub in positions(a):
        parent = None
        if path:
            p = a
            for step in path[:-1]:
                p = p[step]
            parent = p
        is_operand = parent is None or parent[0] in ("U", "O", "X")
        inside_ta = parent is not None and parent[0] == "ta"
        if is_operand:
            out.append((f"and-hint-right@{path}", replace(a, path, ("U", sub, ("k", NEW_HINT)))))
            out.append((f"and-hint-left@{path}", replace(a, path, ("U", ("k", NEW_HINT), sub))))
            if not path:
                # and-ing a hint that already occurs in the expression (the same key twice)
                present = [n[1] for _, n in positions(a) if n[0] == "k" and refsem.category(n[1]) == "hint"]
                if present:
                    out.append((f"and-present-hint-left@{path}", replace(a, path, ("U", ("k", present[0]), sub))))
                    out.append((f"and-present-hint-right@{path}", replace(a, path, ("U", sub, ("k", present[-1])))))
        if has_rc(sub) and not inside_ta and not (sub[0] == "k" and False):
            out.append((f"attach-fc@{path}", replace(a, path, ("ta", sub, ("k", NEW_FC)))))
        if not inside_ta or sub[0] != "k":
            out.append((f"brackets@{path}", replace(a, path, ("br", sub))))
        if sub[0] in ("U", "O", "X"):
            out.append((f"swap@{path}", replace(a, path, (sub[0], sub[2], sub[1]))))
    return out


def cases():
    cfg = (NLEAVES, NKINDS, ATTACH)
    if cfg in _CASES:
        return _CASES[cfg]
    out = []
    with xs.nt():
        rc_glue.NLEAVES, rc_glue.NKINDS, rc_glue.ATTACH = NLEAVES, NKINDS, ATTACH
        parser = env.real_parser("condition")
        for code in range(rc_glue.space_size(NLEAVES, NKINDS, ATTACH)):
            skel_i, ops, kinds, attach = rc_glue.decode(code)
            spelling, brackets, dup = rc_glue.VARIANTS[code % 3]
            b = shapes.build(NLEAVES, skel_i, ops, kinds, attach, spelling, brackets, 0)
            tree = parser.parse(b.text)
            try:
                refsem.req(tree, {k: "FULFILLED" for k in b.rc})
            except (refsem.OutOfScope, refsem.Invalid):
                continue
            a = to_ast(tree)
            for name, t in variants(a):
                text2 = render(t)
                try:
                    tree2 = parser.parse(text2)
                    refsem.req(tree2, {k: "FULFILLED" for k in b.rc})
                except refsem.OutOfScope:
                    continue
                except refsem.Invalid as e:
                    raise xs.HarnessError(f"transformation {name} of valid '{b.text}' gives '{text2}' which the reference calls invalid: {e}")
                for alpha_code in range(3 ** len(b.rc)):
                    out.append((b.text, tuple(b.rc), tuple(b.hints), tuple(b.fc), name, text2, alpha_code))
    _CASES[cfg] = out
    return out


def _eval(text):
    try:
        r = detloop.run(requirement_constraint_evaluation(text))
        return ("ok", (r.requirement_constraints_fulfilled, r.requirement_is_conditional))
    except InvalidExpressionError as e:
        return ("invalid", str(e))
    except Exception as e:  # pylint:disable=broad-except
        return ("raised", f"{type(e).__name__}: {e}")


def meta(idx: int, rf0: bool, rf1: bool) -> bool:
    """
    pre: LO <= idx < HI
    post: _
    """
    xs.path_start()
    idx = xs.pick(idx, LO, HI)
    with xs.nt():
        text, rcs, hints, fcs, name, text2, alpha_code = cases()[idx]
        sel = shapes.digits(alpha_code, [3] * 4)
        alpha = {k: env.STATES[sel[i]] for i, k in enumerate(rcs)}
        hintd = {k: f"Hinweis {k}" for k in hints + (NEW_HINT,)}
        fcd = {k: True for k in fcs + (NEW_FC,)}
    env.setup(rc=alpha, fc=fcd, hints=hintd)
    a = _eval(text)
    b = _eval(text2)
    states = {k: v.name for k, v in alpha.items()}
    if a[0] != "ok":
        xs.reached()
        return xs.fail(f"base expression '{text}' (structurally valid) under {states}: {a}", idx=idx, rf0=rf0, rf1=rf1)
    # refinement of UNKNOWN entries (symbolic choice rf0/rf1 for the first two UNKNOWN keys)
    unknown = [k for k, v in alpha.items() if v.name == "UNKNOWN"]
    c = None
    if unknown and a[1][0] is not None:
        picks = [rf0, rf1]
        alpha2 = dict(alpha)
        for i, k in enumerate(unknown):
            alpha2[k] = env.STATES[0] if (picks[i] if i < 2 else True) else env.STATES[1]
        env.setup(rc=alpha2, fc=fcd, hints=hintd)
        c = _eval(text)
    xs.reached()
    if b != a:
        return xs.fail(f"'{text}' -> {a[1]} but after {name}: '{text2}' -> {b} under {states}", idx=idx, rf0=rf0, rf1=rf1)
    if c is not None and c != a:
        return xs.fail(f"'{text}' has the definite outcome {a[1]} under {states} but {c} after resolving the UNKNOWN keys to { {k: alpha2[k].name for k in unknown} }", idx=idx, rf0=rf0, rf1=rf1)
    return True


# ---------------------------------------------------------------------------------------------------------------------
# redundant brackets w.r.t. the documented precedence, with mixed operator spellings (3 leaves, requirement keys only)
# ---------------------------------------------------------------------------------------------------------------------
PREC = {"O": 1, "X": 2, "U": 3}
SPELLS = ({"U": "U", "O": "O", "X": "X"}, {"U": "∧", "O": "∨", "X": "⊻"}, {"U": "u", "O": "o", "X": "x"})
P_ALPHAS = 8  # 8: all FULFILLED/UNFULFILLED assignments; 27: all assignments
_PCASES = {}


def _render_min(a, spell, counter):
    if a[0] == "k":
        return f"[{a[1]}]"
    i = counter[0]
    counter[0] += 1
    sym = SPELLS[spell[i]][a[0]]
    parts = []
    for child in (a[1], a[2]):
        txt = _render_min(child, spell, counter)
        if child[0] != "k" and PREC[child[0]] < PREC[a[0]]:
            txt = f"({txt})"
        parts.append(txt)
    return f"{parts[0]} {sym} {parts[1]}"


def _render_full(a):
    if a[0] == "k":
        return f"[{a[1]}]"
    return f"({_render_full(a[1])} {a[0]} {_render_full(a[2])})"


def prec_cases():
    if P_ALPHAS in _PCASES:
        return _PCASES[P_ALPHAS]
    out = []
    k = [("k", "1"), ("k", "2"), ("k", "3")]
    for o1 in "UOX":
        for o2 in "UOX":
            for shape in (0, 1):
                a = (o1, (o2, k[0], k[1]), k[2]) if shape == 0 else (o1, k[0], (o2, k[1], k[2]))
                for s1 in range(3):
                    for s2 in range(3):
                        if s1 == s2 == 0:
                            continue
                        if P_ALPHAS == 8 and (s1, s2) not in ((0, 1), (1, 0), (2, 1)):
                            continue  # quick tier: letter/symbol mixes only
                        mn = _render_min(a, (s1, s2), [0])
                        full = _render_full(a)
                        for ac in range(P_ALPHAS):
                            out.append((mn, full, ac))
    _PCASES[P_ALPHAS] = out
    return out


def prec(idx: int) -> bool:
    """
    pre: LO <= idx < HI
    post: _
    """
    xs.path_start()
    idx = xs.pick(idx, LO, HI)
    with xs.nt():
        mn, full, ac = prec_cases()[idx]
        if P_ALPHAS == 8:
            alpha = {str(i + 1): env.STATES[(ac >> i) & 1] for i in range(3)}
        else:
            d = shapes.digits(ac, [3, 3, 3])
            alpha = {str(i + 1): env.STATES[d[i]] for i in range(3)}
    env.setup(rc=alpha)
    a = _eval(full)
    b = _eval(mn)
    xs.reached()
    if a[0] != "ok" or a != b:
        return xs.fail(f"'{mn}' -> {b} but with the brackets that the documented precedence makes redundant: '{full}' -> {a} under { {k: v.name for k, v in alpha.items()} }", idx=idx)
    return True
