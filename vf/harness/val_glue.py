"""
Whole-tree glue for C13/C14/C16/C17: the REAL validate_deep_anwendungshandbuch with real expressions and real evaluation
(DetLoop, symbolic requirement states / flag / inputs) against the reference walk of vf.refval, whose per-node outcomes
come from evaluating each node's expression on its own.
"""
import re

from maus.models.anwendungshandbuch import AhbMetaInformation, DeepAnwendungshandbuch
from maus.models.edifact_components import DataElementFreeText, DataElementValuePool, Segment, SegmentGroup, ValuePoolEntry

from ahbicht.content_evaluation import fc_evaluators
from ahbicht.expressions import InvalidExpressionError
from ahbicht.expressions.ahb_expression_evaluation import evaluate_ahb_expression_tree
from ahbicht.expressions.expression_resolver import parse_expression_including_unresolved_subexpressions
from ahbicht.validation.validation import validate_deep_anwendungshandbuch

from vf import detloop, env, refval, xs

MODE = "C13"
TREE = 0
NTREES = 5
NINP = 2
F901 = -1
FIXS1 = -1
FIXS2 = -1
PRELUDE = 0
PKG1P = "[1] U [2]"  # what the package resolver answers for [1P] (tree 1)
FLAG2_FREE = 1
INVALID = "[2] O [501]"
INVALID_MORE = ("Muss ([2] U [3]) O [902]", "Muss [902] X ([3] O [2])", "X [2][901] O [902]", "Muss [501] X [901]", "Muss [1] Kann [3] O [502] U [503]")


def _tree(t: int, inputs):
    """(spec) nested tuples: ('G', disc, expr, [subgroups], [segments]) ; ('S', disc, expr, [data elements]) ;
    ('F', disc, expr, input) ; ('V', disc, [(qualifier, expr)], input)"""
    i0, i1, i2 = inputs
    if t == 0:
        return [("G", "SG1", "Muss [1]", [("G", "SG2", "Soll [2]", [], [("S", "SG2-SEG", "Kann [3]", [("F", "SG2-DE", "Muss [1] U [2]", i0)])])],
                 [("S", "SEG1", "X [2]", [("F", "DE1", "Soll [3][901]", i1), ("V", "DE2", [("A", "X [1]"), ("B", "X [2]"), ("C", "X")], i2), ("F", "DE4", "Soll", i0)]),
                  ("S", "SEG2", "Soll [3] Kann [1]", [("F", "DE3", "Muss", i0)]), ("S", "SEG3", "s", [("F", "DE5", "S [1]", i1)])])]
    if t == 1:
        return [("G", "SG1", "Kann", [("G", "SG2", "Muss [1P]", [], [("S", "SG2-SEG", "Soll", [("F", "SG2-DE", "Soll [1][902]", i0)])])],
                 [("S", "SEG1", "Muss [3] Soll [2]", [("V", "DE2", [("A", "X")], i2), ("F", "DE1", "X [501]", i1)])]),
                ("G", "SG9", "Soll [2] U [3]", [], [("S", "SG9-SEG", "Muss", [("F", "SG9-DE", "Kann [901]", i1)])])]
    if t == 2:  # invalid expressions at every kind of node
        return [("G", "SG1", f"Muss {INVALID}", [("G", "SG2", "Muss [1]", [], [("S", "SG2-SEG", f"Muss {INVALID} Soll [3]", [("F", "SG2-DE", "Muss [1]", i0)])])],
                 [("S", "SEG1", "X [1]", [("F", "DE1", f"X {INVALID}", i1), ("V", "DE2", [("A", f"X {INVALID}"), ("B", "X [2]"), ("C", "X [3]")], i2)])])]
    if t == 3:
        return [("G", "SG1", "Muss [1]", [], [("S", "SEG1", "Muss [2]", [("V", "DE1", [("Z01", "X [1]"), ("Z1", "X [3]")], i2), ("V", "DE2", [("Q", "X [3]"), ("Z01", "Muss [2] O [501] Soll [1]")], i2)])])]
    if t == 4:  # further kinds of invalid expressions (format constraint or-ed with compositions, hint xor format constraint, invalid later part)
        m = INVALID_MORE
        return [("G", "SG1", m[0], [("G", "SG2", "Muss [1]", [], [("S", "SG2-SEG", m[1], [("F", "SG2-DE", m[4], i0)])])],
                 [("S", "SEG1", "X [1]", [("F", "DE1", m[2], i1), ("V", "DE2", [("A", m[3]), ("B", "X [2]"), ("C", m[0])], i2)])])]
    raise xs.HarnessError("tree index")


def build(spec):
    def mk(n):
        if n[0] == "G":
            return SegmentGroup(discriminator=n[1], ahb_expression=n[2], segment_groups=[mk(c) for c in n[3]], segments=[mk(c) for c in n[4]])
        if n[0] == "S":
            return Segment(discriminator=n[1], ahb_expression=n[2], data_elements=[mk(c) for c in n[3]], section_name="s", segment_id="00001")
        if n[0] == "F":
            return DataElementFreeText(discriminator=n[1], ahb_expression=n[2], entered_input=n[3], data_element_id="0001")
        return DataElementValuePool(discriminator=n[1], value_pool=[ValuePoolEntry(qualifier=q, meaning=f"meaning {q}", ahb_expression=e) for q, e in n[2]], entered_input=n[3], data_element_id="0002")

    return DeepAnwendungshandbuch(meta=AhbMetaInformation(pruefidentifikator="11042"), lines=[mk(g) for g in spec])


def outcome(expr, text=None):
    """abstract evaluation outcome of one expression on its own (real parse + real evaluation)"""

    async def go():
        fc_evaluators.text_to_be_evaluated_by_format_constraint.set(text)
        tree = await parse_expression_including_unresolved_subexpressions(expr, resolve_packages=True)
        return await evaluate_ahb_expression_tree(tree)

    if "O [501]" in expr or "INVALID:" in expr or expr in INVALID_MORE:
        return ("invalid", None)  # invalid by construction (hint or-ed with a requirement constraint): no evaluation needed
    try:
        r = detloop.run(go())
    except InvalidExpressionError as e:
        return ("invalid", e.error_message)
    except Exception as e:  # pylint:disable=broad-except
        raise xs.HarnessError(f"reference evaluation of the valid expression {expr!r} failed: {type(e).__name__}: {e}") from e
    rc, fc = r.requirement_constraint_evaluation_result, r.format_constraint_evaluation_result
    return ("ok", r.requirement_indicator.name, rc.requirement_constraints_fulfilled, rc.hints, fc.format_constraints_fulfilled, fc.error_message)


def reference(spec, soll: bool):
    """document-order list of expected entries; raises refval.Undetermined"""
    out = []

    def group(n, parent):
        st, hints = refval.node_status(outcome(n[2]), parent, soll)
        out.append({"disc": n[1], "status": st, "hints": hints, "kind": "level", "invalid": outcome(n[2])[0] == "invalid"})
        if st == refval.FORB:
            return
        for c in n[3]:
            group(c, st)
        for c in n[4]:
            segment(c, st)

    def segment(n, parent):
        ev = outcome(n[2])
        st, hints = refval.node_status(ev, parent, soll)
        out.append({"disc": n[1], "status": st, "hints": hints, "kind": "level", "invalid": ev[0] == "invalid"})
        if st == refval.FORB:
            return
        for c in n[3]:
            if c[0] == "F":
                f = refval.freetext(outcome(c[2], c[3]), st, soll, c[3])
                f.update({"disc": c[1], "kind": "freetext"})
                out.append(f)
            else:
                v = refval.valuepool([(q, outcome(e)) for q, e in c[2]], st, c[3])
                v.update({"disc": c[1], "kind": "valuepool", "has_invalid": any(outcome(e)[0] == "invalid" for _, e in c[2]) if len(c[2]) > 1 else False})
                out.append(v)

    for g in spec:
        group(g, None)
    return out


def observed(results):
    out = []
    for r in results:
        v = r.validation_result
        e = {"disc": r.discriminator, "status": v.requirement_validation.value, "hints": v.hints}
        if hasattr(v, "format_validation_fulfilled"):
            e.update({"fc": v.format_validation_fulfilled, "fc_msg": v.format_error_message, "offered": list((v.possible_values or {}).keys()) if v.possible_values is not None else None})
        out.append(e)
    return out


def rewrite(spec, repl):
    """textual rewriting of every expression"""

    def rw(n):
        if n[0] == "G":
            return ("G", n[1], repl(n[2]), [rw(c) for c in n[3]], [rw(c) for c in n[4]])
        if n[0] == "S":
            return ("S", n[1], repl(n[2]), [rw(c) for c in n[3]])
        if n[0] == "F":
            return ("F", n[1], repl(n[2]), n[3])
        return ("V", n[1], [(q, repl(e)) for q, e in n[2]], n[3])

    return [rw(g) for g in spec]


def _validate(spec, soll):
    try:
        return ("ok", observed(detloop.run(validate_deep_anwendungshandbuch(build(spec), soll))))
    except NotImplementedError as e:
        return ("NotImplementedError", str(e)[:60])
    except InvalidExpressionError as e:
        return ("InvalidExpressionError", str(e)[:80])
    except Exception as e:  # pylint:disable=broad-except
        return ("raised", f"{type(e).__name__}: {e}")


INP = ((None, "text", "A"), ("2022-01-01T00:00:00+00:00", "", "ZZZ"), ("x", None, "Z01"), ("", "y", None))


def tree_glue(s1: int, s2: int, s3: int, soll: bool, iv: int, f901: bool, flag2: bool) -> bool:
    """
    pre: (FIXS1 < 0 or s1 == FIXS1) and (FIXS2 < 0 or s2 == FIXS2) and (FLAG2_FREE == 1 or MODE != "C14" or flag2 != soll) and 0 <= s1 < 3 and 0 <= s2 < 3 and 0 <= s3 < 3 and 0 <= iv < NINP and (F901 < 0 or f901 == (F901 == 1))
    post: _
    """
    xs.path_start()
    s1, s2, s3, iv = xs.pick(s1, 0, 3), xs.pick(s2, 0, 3), xs.pick(s3, 0, 3), xs.pick(iv, 0, NINP)
    soll_c, f901_c = bool(xs.R(soll)), bool(xs.R(f901))
    if MODE != "C14" and flag2:
        return True
    flag2_c = bool(xs.R(flag2))
    alpha = {"1": env.STATES[s1], "2": env.STATES[s2], "3": env.STATES[s3]}
    env.setup(rc=alpha, fc={"901": f901_c, "902": lambda text: bool(text) and len(text) > 3}, hints={"501": "Hinweis 501", "502": "Hinweis 502", "503": "Hinweis 503"}, packages={"1P": PKG1P})
    spec = _tree(TREE, INP[iv])
    d = dict(s1=s1, s2=s2, s3=s3, soll=soll, iv=iv, f901=f901, flag2=flag2)
    states = {k: v.name for k, v in alpha.items()}
    if PRELUDE and MODE in ("C13", "C16"):
        # what was validated before must not matter: the same AHB under ANOTHER package definition first (result discarded)
        with xs.nt():
            import inject

            from ahbicht.content_evaluation.token_logic_provider import TokenLogicProvider

            res = inject.instance(TokenLogicProvider).get_package_resolver(env.FMT, env.FV)
            res._t["1P"] = "[2] O [501]" if PKG1P == "[1] U [2]" else "[1] U [2]"
        _validate(_tree(TREE, INP[iv]), soll_c)
        with xs.nt():
            res._t["1P"] = PKG1P
    if PRELUDE and MODE == "C14":
        # what was validated before must not matter: the very same AHB under the OTHER flag value first (result discarded)
        _validate(_tree(TREE, INP[iv]), not soll_c)
    got = _validate(spec, soll_c)
    ctx = f"tree {TREE}, states {states}, soll_is_required={soll_c}" + (f" (validated with soll_is_required={not soll_c} just before)" if PRELUDE and MODE == "C14" else "") + (f" (package 1P = '{PKG1P}'; validated with another definition of 1P just before)" if PRELUDE and MODE in ("C13", "C16") else "") + f", inputs {INP[iv]}"
    if MODE == "C14":
        spec2 = rewrite(_tree(TREE, INP[iv]), lambda e: re.sub(r"(?i)\b(soll|s)\b(?=\s*(\[|\(|$|[A-Za-z]))", "Muss" if soll_c else "Kann", e))
        got2 = _validate(spec2, flag2_c)
        xs.reached()
        if got != got2:
            diff = got if got[0] != "ok" or got2[0] != "ok" else [(a, b) for a, b in zip(got[1], got2[1]) if a != b][:2]
            return xs.fail(f"{ctx}: validation differs from validating the AHB with every SOLL rewritten to {'MUSS' if soll_c else 'KANN'} (flag {flag2_c}): {diff}", **d)
        return True
    with xs.nt():  # the reference walk evaluates every node's expression on its own; concrete inputs, untraced
        try:
            want = reference(spec, soll_c)
        except refval.Undetermined:
            want = None
    xs.reached()
    if MODE == "C16":
        if got[0] != "ok" and got[0] != "NotImplementedError":
            return xs.fail(f"{ctx}: validation aborted with {got}", **d)
        if want is None or got[0] != "ok":
            return True  # NotImplementedError for an undetermined MUSS/prefix node is documented behaviour (C13's subject)
        spec_k = rewrite(_tree(TREE, INP[iv]), lambda e: "Kann" if e in INVALID_MORE else re.sub(r"^(Muss|X) " + re.escape(INVALID) + r"( Soll \[3\])?$", "Kann", e).replace("Muss [2] O [501] Soll [1]", "Kann"))
        got_k = _validate(spec_k, soll_c)
        inv = {w["disc"] for w in want if w.get("invalid")}
        for w, o in zip(want, got[1]):
            if w.get("invalid") and (not o["status"].startswith("IS_OPTIONAL") or not o["hints"]):
                return xs.fail(f"{ctx}: node {w['disc']} carries an invalid expression and must be optional with the reason as hint; reported {o}", **d)
        if got_k[0] == "ok":
            a = [o for o in got[1] if o["disc"] not in inv]
            b = [o for o in got_k[1] if o["disc"] not in inv]
            if a != b:
                return xs.fail(f"{ctx}: nodes without invalid expression differ from the run with 'Kann' in place of the invalid expressions: {[(x, y) for x, y in zip(a, b) if x != y][:2] or (len(a), len(b))}", **d)
        return True
    # C13 / C17
    if want is None:
        if MODE == "C13" and got[0] != "NotImplementedError":
            return xs.fail(f"{ctx}: a visited MUSS/prefix node is undetermined, documented behaviour NotImplementedError; got {got[0]}", **d)
        return True
    if got[0] != "ok":
        if MODE == "C13":
            return xs.fail(f"{ctx}: {got}", **d)
        return True
    obs = got[1]
    if MODE == "C13":
        if [o["disc"] for o in obs] != [w["disc"] for w in want]:
            return xs.fail(f"{ctx}: reported nodes {[o['disc'] for o in obs]}, document order without pruned subtrees is {[w['disc'] for w in want]}", **d)
        for w, o in zip(want, obs):
            if w.get("invalid"):
                continue
            if w["kind"] == "level" and (o["status"] != w["status"] or (o["hints"] != w["hints"] and not w.get("invalid"))):
                return xs.fail(f"{ctx}: {w['disc']} reported {o['status']} (hints {o['hints']!r}), own status x parent table gives {w['status']} (hints {w['hints']!r})", **d)
            if w["kind"] == "freetext":
                exp = w["status_base"] + w["suffix"]
                if o["status"] != exp or o["fc"] != w["fc"] or o["fc_msg"] != w["fc_msg"] or o["hints"] != w["hints"]:
                    return xs.fail(f"{ctx}: free-text element {w['disc']} reported {o}, expected status {exp}, format {(w['fc'], w['fc_msg'])}, hints {w['hints']!r}", **d)
        return True
    if MODE == "C17":
        for w, o in zip(want, obs):
            if w["disc"] != o["disc"] or w["kind"] != "valuepool":
                continue
            if w.get("forbidden"):
                if o["offered"] or not o["status"].startswith("IS_FORBIDDEN"):
                    return xs.fail(f"{ctx}: value pool {w['disc']}: nothing offered -> forbidden; reported {o}", **d)
                continue
            if o["offered"] != w["offered"]:
                return xs.fail(f"{ctx}: value pool {w['disc']} offers {o['offered']}, admissible qualifiers in pool order are {w['offered']}", **d)
            flagged = o["fc"] is False
            if (w["input"] == "accepted") != (o["status"].endswith("_AND_FILLED") and not flagged) or (w["input"] == "unexpected") != flagged:
                return xs.fail(f"{ctx}: value pool {w['disc']} input {w['input']}: reported {o}", **d)
        return True
    raise xs.HarnessError(f"MODE {MODE}")
