"""
C19 — JSON serialisation round-trips.  Real marshmallow schemas, dump -> JSON text -> load with symbolic field values
(the json.dumps/loads text step runs untraced on the realised dict: stdlib json is C code and not the subject).
Trees: every tree the parsers/resolver produce for selector-built expressions must round-trip and evaluate identically.
"""
import json
import uuid
from typing import Optional

from ahbicht.expressions.ahb_expression_evaluation import evaluate_ahb_expression_tree
from ahbicht.expressions.condition_expression_parser import extract_categorized_keys_from_tree, parse_condition_expression_to_tree
from ahbicht.expressions.expression_resolver import parse_expression_including_unresolved_subexpressions
from ahbicht.expressions.requirement_constraint_expression_evaluation import requirement_constraint_evaluation
from ahbicht.json_serialization.tree_schema import TreeSchema
from ahbicht.models.categorized_key_extract import CategorizedKeyExtract, CategorizedKeyExtractSchema
from ahbicht.models.condition_nodes import ConditionFulfilledValue as CFV
from ahbicht.models.condition_nodes import EvaluatedFormatConstraint, EvaluatedFormatConstraintSchema
from ahbicht.models.content_evaluation_result import ContentEvaluationResult, ContentEvaluationResultSchema
from ahbicht.models.enums import ModalMark, PrefixOperator
from ahbicht.models.evaluation_results import (
    AhbExpressionEvaluationResult,
    AhbExpressionEvaluationResultSchema,
    FormatConstraintEvaluationResult,
    FormatConstraintEvaluationResultSchema,
    RequirementConstraintEvaluationResult,
    RequirementConstraintEvaluationResultSchema,
)

from vf import detloop, env, xs
from vf.harness.resolve_harness import same, show

LO = 0
HI = 1
FIXCER = (-1, -1)
INDICATORS = (ModalMark.MUSS, ModalMark.SOLL, ModalMark.KANN, PrefixOperator.X, PrefixOperator.O, PrefixOperator.U)


JSON_TYPES = (str, bool, int, float, type(None))


def _json_compatible(x) -> bool:
    """what json.dumps/json.loads maps to itself: dicts with str keys, lists, str/bool/int/float/None leaves"""
    if isinstance(x, dict):
        return all(isinstance(k, str) and _json_compatible(v) for k, v in x.items())
    if isinstance(x, list):
        return all(_json_compatible(v) for v in x)
    return isinstance(x, JSON_TYPES)


def roundtrip(schema, obj, text_step: bool = False):
    """dump -> JSON -> load; returns ('ok', obj2, text) or ('raised', description, None).
    text_step=False (symbolic field values): the dumped structure must be JSON-compatible (json.dumps/loads is the identity
    on such structures; stdlib C code, not the subject) and is loaded as it is, so strings stay symbolic.
    text_step=True (concrete objects such as trees): the real json.dumps / json.loads run untraced."""
    try:
        d = schema.dump(obj)
        if text_step:
            d = xs.R(d)
            with xs.nt():
                text = json.dumps(d)
                d2 = json.loads(text)
            return ("ok", schema.load(d2), text)
        if not _json_compatible(d):
            return ("raised", f"dump is not JSON-compatible: {type(d).__name__}", None)
        return ("ok", schema.load(d), None)
    except Exception as e:  # pylint:disable=broad-except
        return ("raised", f"{type(e).__name__}: {e}", None)


def rt_rcer(f: Optional[bool], c: Optional[bool], fce: Optional[str], hints: Optional[str]) -> bool:
    """
    pre: (f is None) == (c is None)
    post: _
    """
    xs.path_start()
    obj = RequirementConstraintEvaluationResult(requirement_constraints_fulfilled=f, requirement_is_conditional=c, format_constraints_expression=fce, hints=hints)
    got = roundtrip(RequirementConstraintEvaluationResultSchema(), obj)
    xs.reached()
    if got[0] != "ok" or got[1] != obj:
        return xs.fail(f"RequirementConstraintEvaluationResult(fulfilled={f}, conditional={c}, fce={fce!r}, hints={hints!r}) does not round-trip: {got[1]} (JSON {got[2]})", f=f, c=c, fce=fce, hints=hints)
    return True


def rt_fcer(ful: bool, msg: Optional[str], which: int) -> bool:
    """
    pre: 0 <= which < 2
    post: _
    """
    xs.path_start()
    which = xs.pick(which, 0, 2)
    if which == 0:
        obj, schema = FormatConstraintEvaluationResult(format_constraints_fulfilled=ful, error_message=msg), FormatConstraintEvaluationResultSchema()
    else:
        obj, schema = EvaluatedFormatConstraint(format_constraint_fulfilled=ful, error_message=msg), EvaluatedFormatConstraintSchema()
    got = roundtrip(schema, obj)
    xs.reached()
    if got[0] != "ok" or got[1] != obj:
        return xs.fail(f"{type(obj).__name__}({ful}, {msg!r}) does not round-trip: {got[1]} (JSON {got[2]})", ful=ful, msg=msg, which=which)
    return True


def rt_ahb(ind: int, f: Optional[bool], hints: Optional[str], ful: bool, msg: Optional[str]) -> bool:
    """
    pre: 0 <= ind < 6
    post: _
    """
    xs.path_start()
    ind = xs.pick(ind, 0, 6)
    obj = AhbExpressionEvaluationResult(
        requirement_indicator=INDICATORS[ind],
        requirement_constraint_evaluation_result=RequirementConstraintEvaluationResult(requirement_constraints_fulfilled=f, requirement_is_conditional=(None if f is None else True), format_constraints_expression=None, hints=hints),
        format_constraint_evaluation_result=FormatConstraintEvaluationResult(format_constraints_fulfilled=ful, error_message=msg),
    )
    got = roundtrip(AhbExpressionEvaluationResultSchema(), obj)
    xs.reached()
    if got[0] != "ok" or got[1] != obj:
        return xs.fail(f"AhbExpressionEvaluationResult({INDICATORS[ind]}, fulfilled={f}, hints={hints!r}, format ({ful}, {msg!r})) does not round-trip: {got[1]} (JSON {got[2]})", ind=ind, f=f, hints=hints, ful=ful, msg=msg)
    return True


KEYPOOL = ("2", "1", "17", "501", "600", "901", "950")
_CKE_CASES = []


def cke_cases():
    if _CKE_CASES:
        return _CKE_CASES
    lists = [[], ["2"], ["2", "1"], ["1", "2", "1"], ["901", "17", "501", "950", "600", "2"], ["950", "901"], ["501", "501"]]
    for l in lists:
        _CKE_CASES.append(("list", l, False))
        _CKE_CASES.append(("list", l, True))
    for e in ("[2] U [1]", "[3] U ([1] O [3])[902][901] U [502] U [501]", "[UB3] O [UB1] U [7P] U [3P]", "[1]"):
        _CKE_CASES.append(("tree", e, False))
        _CKE_CASES.append(("tree", e, True))
    _CKE_CASES.append(("sum", None, False))
    return _CKE_CASES


def rt_cke(idx: int) -> bool:
    """
    pre: 0 <= idx < len(cke_cases())
    post: _
    """
    xs.path_start()
    idx = xs.pick(idx, 0, len(cke_cases()))
    kind, src, sanitize = cke_cases()[idx]
    with xs.nt():
        env.install_parser_proxies()
    if kind == "list":
        obj = extract_categorized_keys_from_tree(list(src), sanitize=sanitize)
    elif kind == "tree":
        obj = extract_categorized_keys_from_tree(parse_condition_expression_to_tree(src), sanitize=sanitize)
    else:
        obj = extract_categorized_keys_from_tree(["2", "901"]) + extract_categorized_keys_from_tree(["1", "501", "2"])
    got = roundtrip(CategorizedKeyExtractSchema(), obj, text_step=True)
    xs.reached()
    if got[0] != "ok" or got[1] != obj:
        return xs.fail(f"CategorizedKeyExtract {obj} (from {kind} {src}, sanitize={sanitize}) does not round-trip: {got[1]}", idx=idx)
    return True


def rt_cer(s1: int, s2: int, h1: Optional[str], f1: bool, m1: Optional[str], pk: int, with_id: bool) -> bool:
    """
    pre: (FIXCER[0] < 0 or s1 == FIXCER[0]) and (FIXCER[1] < 0 or pk == FIXCER[1]) and 0 <= s1 < 4 and 0 <= s2 < 4 and 0 <= pk < 3
    post: _
    """
    xs.path_start()
    s1, s2, pk = xs.pick(s1, 0, 4), xs.pick(s2, 0, 4), xs.pick(pk, 0, 3)
    states = (CFV.FULFILLED, CFV.UNFULFILLED, CFV.UNKNOWN, CFV.NEUTRAL)
    obj = ContentEvaluationResult(
        hints={"501": h1, "502": None},
        format_constraints={"901": EvaluatedFormatConstraint(format_constraint_fulfilled=f1, error_message=m1)},
        requirement_constraints={"1": states[s1], "2": states[s2]},
        packages=(None, {}, {"1P": "[1] U [2]"})[pk],
        id=uuid.UUID("12345678-1234-5678-1234-567812345678") if with_id else None,
    )
    got = roundtrip(ContentEvaluationResultSchema(), obj)
    xs.reached()
    if got[0] != "ok":
        return xs.fail(f"ContentEvaluationResult {obj} does not round-trip: {got[1]}", s1=s1, s2=s2, h1=h1, f1=f1, m1=m1, pk=pk, with_id=with_id)
    back = got[1]
    same_packages = back.packages == obj.packages and (back.packages is None) == (obj.packages is None)
    if back.hints != obj.hints or back.format_constraints != obj.format_constraints or back.requirement_constraints != obj.requirement_constraints or not same_packages or back.id != obj.id:
        return xs.fail(f"ContentEvaluationResult {obj} loads back as {back}", s1=s1, s2=s2, h1=h1, f1=f1, m1=m1, pk=pk, with_id=with_id)
    return True


# ---------------------------------------------------------------------------------------------------------------------
_TREE_CASES = []


def tree_cases():
    if _TREE_CASES:
        return _TREE_CASES
    from vf.harness import ahb_harness, resolve_harness

    out = []
    ahb_harness.LEVEL = 0
    for text, _ in ahb_harness.cases()[::3]:
        out.append(("ahb", text))
    resolve_harness.LEVEL = 0
    for text in resolve_harness.cases()[::4]:
        out.append(("resolve", text))
    out += [("ahb", "Muss [3] Soll [4] Kann [2]"), ("ahb", "Muss [3] Soll [4] Kann"), ("ahb", "M[1]S[2]K[3]m[1]"), ("cond", "[1] U ([2] O [3])[901]"), ("cond", "[2P0..3] X [UB2]")]
    # the same package key with different repeatabilities (in one tree; in two trees loaded one after the other), repeated leaves
    out += [("cond", "[2P0..3] O [4] U [2P]"), ("cond", "[10P1..2] X [10P2..5]"), ("cond", "[7] U [7] O [UB1] X [UB1]"), ("condpair", ("[5P]", "[5P0..1]")), ("condpair", ("[5P0..1] U [3]", "[5P] U [3]")), ("condpair", ("[1] U [2]", "[1] O [2]"))]
    _TREE_CASES.extend(out)
    return _TREE_CASES


def rt_tree(idx: int, s1: int, s2: int) -> bool:
    """
    pre: LO <= idx < HI and 0 <= s1 < 3 and 0 <= s2 < 3
    post: _
    """
    xs.path_start()
    idx = xs.pick(idx, LO, HI)
    with xs.nt():
        kind, text = tree_cases()[idx]
    evaluable = kind == "ahb"
    if not evaluable and (s1 != 0 or s2 != 0):
        return True
    if kind == "condpair":
        # two trees dumped and loaded one after the other in one process: the second load must not see the first
        for one in text:
            tree = parse_condition_expression_to_tree(one)
            got = roundtrip(TreeSchema(), tree, text_step=True)
            with xs.nt():
                ok = got[0] == "ok" and same(got[1], tree)
            if not ok:
                xs.reached()
                return xs.fail(f"trees of {text} dumped and loaded one after the other: '{one}' loads back as {show(got[1]) if got[0] == 'ok' else got[1]}, original {show(tree)}", idx=idx, s1=s1, s2=s2)
        xs.reached()
        return True
    s1, s2 = xs.pick(s1, 0, 3), xs.pick(s2, 0, 3)
    alpha = {"1": env.STATES[s1], "2": env.STATES[s2], "3": env.STATES[(s1 + s2) % 3], "4": env.STATES[s2]}
    env.setup(rc=alpha, fc={"901": True, "902": False}, hints={"501": "Hinweis 501"}, packages={"1P": "[10]", "2P": "[UB3] O [13]", "3P": "[11] U [12]"})
    try:
        if kind == "cond":
            tree = parse_condition_expression_to_tree(text)
        elif kind == "ahb":
            tree = detloop.run(parse_expression_including_unresolved_subexpressions(text))
        else:
            tree = detloop.run(parse_expression_including_unresolved_subexpressions(text, resolve_packages=True, replace_time_conditions=True))
    except Exception as e:  # pylint:disable=broad-except
        raise xs.HarnessError(f"cannot build the tree of {text!r}: {type(e).__name__}: {e}") from e
    got = roundtrip(TreeSchema(), tree, text_step=True)
    xs.reached()
    d = dict(idx=idx, s1=s1, s2=s2)
    if got[0] != "ok":
        return xs.fail(f"tree of '{text}' does not round-trip: {got[1]}", **d)
    with xs.nt():
        ok = same(got[1], tree)
    if not ok:
        return xs.fail(f"tree of '{text}' loads back as {show(got[1])}, original {show(tree)}", **d)
    if evaluable:
        try:
            a = detloop.run(evaluate_ahb_expression_tree(tree))
            b = detloop.run(evaluate_ahb_expression_tree(got[1]))
        except Exception as e:  # pylint:disable=broad-except
            return xs.fail(f"evaluating the (round-tripped) tree of '{text}' raised {type(e).__name__}: {e}", **d)
        if a != b:
            return xs.fail(f"'{text}': evaluation of the round-tripped tree {b} differs from the original {a}", **d)
    return True
