"""
C09 — AHB expressions.
  select      the REAL AhbExpressionTransformer.ahb_expression / _ahb_expression_async on DetLoop: k part results, each plain
              or awaitable (symbolic yields), fulfilled in {True, False, None} symbolic
  glue        assembled AHB expressions through the real parser, resolver and evaluate_ahb_expression_tree; the split must
              be the assembled parts; the result must equal evaluating the chosen part on its own
"""
from ahbicht.expressions.ahb_expression_evaluation import AhbExpressionTransformer, evaluate_ahb_expression_tree
from ahbicht.expressions.ahb_expression_parser import parse_ahb_expression_to_single_requirement_indicator_expressions
from ahbicht.expressions.expression_resolver import parse_expression_including_unresolved_subexpressions
from ahbicht.expressions.format_constraint_expression_evaluation import format_constraint_evaluation
from ahbicht.expressions.requirement_constraint_expression_evaluation import requirement_constraint_evaluation
from ahbicht.models.enums import ModalMark, PrefixOperator
from ahbicht.models.evaluation_results import AhbExpressionEvaluationResult, FormatConstraintEvaluationResult, RequirementConstraintEvaluationResult

from vf import detloop, env, shapes, xs

LO = 0
HI = 1
K = 2
F0 = -1
YMAX = 2
LEVEL = 0
TRI = (True, False, None)


def _part(i: int, fulfilled):
    return AhbExpressionEvaluationResult(
        requirement_indicator=(ModalMark.MUSS, ModalMark.SOLL, ModalMark.KANN, ModalMark.MUSS)[i],
        requirement_constraint_evaluation_result=RequirementConstraintEvaluationResult(
            requirement_constraints_fulfilled=fulfilled, requirement_is_conditional=(None if fulfilled is None else True), format_constraints_expression=f"[90{i + 1}]", hints=f"hint of part {i}"
        ),
        format_constraint_evaluation_result=FormatConstraintEvaluationResult(format_constraints_fulfilled=(i % 2 == 0), error_message=(None if i % 2 == 0 else f"error of part {i}")),
    )


def select(f0: int, f1: int, f2: int, f3: int, aw0: bool, aw1: bool, aw2: bool, aw3: bool, y0: int, y1: int, y2: int, y3: int) -> bool:
    """
    pre: 0 <= f0 < 3 and 0 <= f1 < 3 and 0 <= f2 < 3 and 0 <= f3 < 3 and (F0 < 0 or f0 == F0)
    pre: 0 <= y0 <= YMAX and 0 <= y1 <= YMAX and 0 <= y2 <= YMAX and 0 <= y3 <= YMAX
    post: _
    """
    xs.path_start()
    k = K
    fs = [f0, f1, f2, f3][:k]
    aws = [aw0, aw1, aw2, aw3][:k]
    ys = [y0, y1, y2, y3][:k]
    fs = [xs.pick(f, 0, 3) for f in fs]
    parts = [_part(i, TRI[fs[i]]) for i in range(k)]

    async def later(i):
        await detloop.yields(ys[i])
        return parts[i]

    items = []
    for i in range(k):
        if aws[i]:
            items.append(later(i))
        else:
            if ys[i] != 0:
                return True  # canonical: yields only matter for awaitable parts
            items.append(parts[i])
    try:
        res = detloop.run(AhbExpressionTransformer().ahb_expression(items))
    except Exception as e:  # pylint:disable=broad-except
        xs.reached()
        return xs.fail(f"ahb_expression raised {type(e).__name__}: {e}", f0=f0, f1=f1, f2=f2, f3=f3, aw0=aw0, aw1=aw1, aw2=aw2, aw3=aw3, y0=y0, y1=y1, y2=y2, y3=y3)
    xs.reached()
    want = next((i for i in range(k) if TRI[fs[i]] is True), k - 1)
    got = next((i for i in range(k) if getattr(getattr(res, 'requirement_constraint_evaluation_result', None), 'hints', None) == f'hint of part {i}'), None)
    desc = dict(f0=f0, f1=f1, f2=f2, f3=f3, aw0=aw0, aw1=aw1, aw2=aw2, aw3=aw3, y0=y0, y1=y1, y2=y2, y3=y3)
    if got != want:
        return xs.fail(f"parts fulfilled={[TRI[f] for f in fs]} awaitable={xs.R(aws)} yields={xs.R(ys)}: part {got} was returned, expected part {want} (first fulfilled, else last)", **desc)
    p = parts[want]
    rc = p.requirement_constraint_evaluation_result
    if rc.requirement_constraints_fulfilled is not TRI[fs[want]] or rc.hints != f"hint of part {want}" or rc.format_constraints_expression != f"[90{want + 1}]" or p.format_constraint_evaluation_result.format_constraints_fulfilled != (want % 2 == 0):
        return xs.fail(f"the returned part {want} no longer carries its own outcome/hints/format result: {p}", **desc)
    return True


# ---------------------------------------------------------------------------------------------------------------------
MM = (("Muss", "MUSS"), ("muss", "MUSS"), ("M", "MUSS"), ("m", "MUSS"), ("MUSS", "MUSS"), ("mUsS", "MUSS"), ("Soll", "SOLL"), ("s", "SOLL"), ("S", "SOLL"), ("soLL", "SOLL"), ("Kann", "KANN"), ("k", "KANN"), ("K", "KANN"), ("KANN", "KANN"))
PO = (("X", "X"), ("x", "X"), ("O", "O"), ("o", "O"), ("U", "U"), ("u", "U"))
CONDS = ("[1]", "[2]U[501]", "[3][901]", "([1]O[2])", "[1]∧[2]")
WS = ("", " ", "\t", "  ", "\n", " \r\n")
_CASES = {}


def cases():
    """(text, [(indicator_name, condition part or None)], rc keys)"""
    if LEVEL in _CASES:
        return _CASES[LEVEL]
    n = 0
    out = []
    multi = []
    # single modal-mark part: every spelling x every condition x whitespace rotated; bare marks
    for sp, name in MM:
        for c in CONDS:
            n += 1
            out.append((f"{sp}{WS[n % 6]}{c}{WS[(n // 6) % 6]}", [(name, c)]))
        out.append((sp, [(name, None)]))
    for sp, name in PO:
        for c in CONDS[:3]:
            n += 1
            out.append((f"{sp}{WS[n % 6]}{c}", [(name, c)]))
        out.append((sp, [(name, None)]))
    # two and three parts, optional trailing bare mark
    for a in range(0, len(MM), 2):
        for b in range(1, len(MM), 3):
            n += 1
            (s1, n1), (s2, n2) = MM[a], MM[b]
            c1, c2 = CONDS[n % 3], CONDS[(n + 1) % 3]
            multi.append((f"{s1}{WS[n % 6]}{c1}{WS[(n + 1) % 6]}{s2}{WS[(n + 2) % 6]}{c2}", [(n1, c1), (n2, c2)]))
            if n % 2 == 0:
                s3, n3 = MM[(a + b) % len(MM)]
                multi.append((f"{s1}{c1} {s2}{WS[n % 6]}{c2} {s3}", [(n1, c1), (n2, c2), (n3, None)]))
            else:
                s3, n3 = MM[(a + b + 5) % len(MM)]
                c3 = CONDS[(n + 2) % 3]
                multi.append((f"{s1}{WS[n % 5]}{c1}{s2}{c2}\t{s3}{WS[n % 6]}{c3}", [(n1, c1), (n2, c2), (n3, c3)]))
    for sp, name in MM[::3]:
        out.append((f"{sp} [1] {MM[1][0]}", [(name, "[1]"), ("MUSS", None)]))
    out += multi if LEVEL else multi[::3]
    _CASES[LEVEL] = out
    return out


def _norm(s):
    return "".join(str(s).split())


def glue(idx: int, s1: int, s2: int, s3: int, fb: bool) -> bool:
    """
    pre: LO <= idx < HI and 0 <= s1 < 3 and 0 <= s2 < 3 and 0 <= s3 < 3
    post: _
    """
    xs.path_start()
    idx = xs.pick(idx, LO, HI)
    xs.REAL_LRU = True  # every lru_cache of the code under test really caches during this path (CrossHair would bypass it) ...
    xs.clear_ahbicht_caches()  # ... and starts empty
    with xs.nt():
        text, parts = cases()[idx]
        used = sorted({k for _, c in parts if c for k in ("1", "2", "3") if f"[{k}]" in c})
    sel = {"1": s1, "2": s2, "3": s3}
    alpha = {}
    for k in ("1", "2", "3"):
        if k in used:
            alpha[k] = env.STATES[xs.pick(sel[k], 0, 3)]
    if "[901]" not in text and fb:
        return True
    env.setup(rc=dict(alpha, **{"9": env.STATES[1]}), fc={"901": fb}, hints={"501": "Hinweis 501"})
    desc = dict(idx=idx, s1=s1, s2=s2, s3=s3, fb=fb)
    # ---- split
    try:
        tree = parse_ahb_expression_to_single_requirement_indicator_expressions(text)
    except Exception as e:  # pylint:disable=broad-except
        xs.reached()
        return xs.fail(f"AHB expression '{text}' of the documented form is rejected: {type(e).__name__}", **desc)
    with xs.nt():
        got_parts = []
        for ch in tree.children:
            toks = [t for t in ch.scan_values(lambda v: hasattr(v, "type"))] if hasattr(ch, "children") else [ch]
            ind = next((str(t.value) for t in toks if t.type in ("MODAL_MARK", "PREFIX_OPERATOR")), None)
            ce = next((str(t.value) for t in toks if t.type == "CONDITION_EXPRESSION"), None)
            got_parts.append((ind, ce))
        want_parts = parts
        split_ok = len(got_parts) == len(want_parts) and all(
            g[0] is not None and g[0].upper()[0] == w[0][0] and (_norm(g[1]) if g[1] is not None else None) == (_norm(w[1]) if w[1] is not None else None) for g, w in zip(got_parts, want_parts)
        )
    if not split_ok:
        xs.reached()
        return xs.fail(f"'{text}' is split into {got_parts}, written parts are {want_parts}", **desc)
    # ---- history: an earlier evaluation in which a trailing bare mark was the selected part of a multi-part expression
    if len(parts) == 1 and parts[0][1] is None:
        try:
            detloop.run(evaluate_ahb_expression_tree(detloop.run(parse_expression_including_unresolved_subexpressions("Muss [9] Kann"))))
            detloop.run(evaluate_ahb_expression_tree(detloop.run(parse_expression_including_unresolved_subexpressions("X [9] U [9]"))))
        except Exception:  # pylint:disable=broad-except
            pass
    # ---- evaluation of the whole expression
    try:
        rtree = detloop.run(parse_expression_including_unresolved_subexpressions(text))
        res = detloop.run(evaluate_ahb_expression_tree(rtree))
        out = ("ok", res)
    except Exception as e:  # pylint:disable=broad-except
        out = ("raised", e)
    # ---- reference: every part's condition expression evaluated on its own (real rc/fc evaluation)
    singles = []
    for name, c in parts:
        if c is None:
            singles.append((name, True, None, None, True, None))
            continue
        rc = detloop.run(requirement_constraint_evaluation(c))
        fc = detloop.run(format_constraint_evaluation(rc.format_constraints_expression))
        singles.append((name, rc.requirement_constraints_fulfilled, rc.hints, rc.format_constraints_expression, fc.format_constraints_fulfilled, fc.error_message))
    xs.reached()
    states = {k: v.name for k, v in alpha.items()}
    if out[0] != "ok":
        return xs.fail(f"evaluating '{text}' under {states} raised {type(out[1]).__name__}: {out[1]}", **desc)
    res = out[1]
    want = next((s for s in singles if s[1] is True), singles[-1])
    ind = res.requirement_indicator
    rcr, fcr = res.requirement_constraint_evaluation_result, res.format_constraint_evaluation_result
    got = (getattr(ind, "name", str(ind)), rcr.requirement_constraints_fulfilled, rcr.hints, rcr.format_constraints_expression, fcr.format_constraints_fulfilled, fcr.error_message)
    if not isinstance(ind, (ModalMark, PrefixOperator)):
        return xs.fail(f"'{text}': reported indicator {ind!r} is not a normalised indicator", **desc)
    if len(parts) == 1 and parts[0][1] is None and rcr.requirement_is_conditional is not False:
        return xs.fail(f"bare indicator '{text}' (evaluated after 'Muss [9] Kann' in the same process) must count as fulfilled and unconditional; requirement_is_conditional={rcr.requirement_is_conditional}", **desc)
    if got != want:
        return xs.fail(f"'{text}' under {states}: result (indicator, fulfilled, hints, format expression, format fulfilled, format message) = {got}; the deciding part on its own gives {want}", **desc)
    return True
