"""
C15 — each data element's format constraints see only that element's own input (XH + DetLoop).
Real validate_deep_anwendungshandbuch / validate_segment with several free-text elements that share format-constraint keys,
a text-dependent format-constraint evaluator whose awaitables yield a symbolic number of times.
"""
from maus.models.anwendungshandbuch import AhbMetaInformation, DeepAnwendungshandbuch
from maus.models.edifact_components import DataElementFreeText, Segment, SegmentGroup

from ahbicht.validation.validation import validate_data_element_freetext, validate_deep_anwendungshandbuch, validate_segment
from ahbicht.models.validation_values import RequirementValidationValue as RVV

from vf import detloop, env, xs

YMAX = 2
ENTRY = 0  # 0: validate_deep_anwendungshandbuch, 1: validate_segment
ELEMS = (("D0", "Muss [1][950]", "alpha"), ("D1", "Muss [950]", ""), ("D2", "Kann [2][951] U [950]", "gamma"), ("D3", "X [950]", None), ("D4", "Muss [950] U [951]", "apple"), ("D5", "Muss [10P]", "avoca"), ("D6", "Muss [951]", ""), ("D7", "Muss [10P]", "zzzzz"), ("D8", "Muss [UB1]", "2022-01-01T00:00:00+01:00"), ("D9", "Muss [951]", None))
NEL = 4
FIX = (-1, -1)


def verdict(key, text):
    if key == "950":
        return bool(text) and text.startswith("a")
    return bool(text) and len(text) == 5


def _mk(i):
    d, e, t = ELEMS[i]
    return DataElementFreeText(discriminator=d, ahb_expression=e, entered_input=t, data_element_id=f"000{i}")


def own_input(y0: int, y1: int, y2: int, y3: int, y4: int, yr: int) -> bool:
    """
    pre: 0 <= y0 <= YMAX and 0 <= y1 <= YMAX and 0 <= y2 <= YMAX and 0 <= y3 <= YMAX and 0 <= y4 <= YMAX and 0 <= yr <= 1
    pre: (NEL >= 5 or y4 == 0) and (NEL >= 4 or y3 == 0) and (FIX[0] < 0 or y0 == FIX[0]) and (FIX[1] < 0 or y1 == FIX[1])
    post: _
    """
    xs.path_start()
    ys = [xs.pick(y, 0, YMAX + 1) for y in (y0, y1, y2, y3, y4)]
    yr = xs.pick(yr, 0, 2)
    texts = [ELEMS[i][2] for i in range(NEL)]
    log = env.Log()

    def fc_value(key):
        def f(entered_input):
            return verdict(key, entered_input)

        return f

    with xs.nt():
        env.install_parser_proxies()
        ycount_by_text = {texts[i]: ys[i] for i in range(NEL)}

        # a format-constraint evaluator whose evaluation really suspends, for a number of loop turns that depends on the text
        from ahbicht.content_evaluation.fc_evaluators import FcEvaluator
        from ahbicht.models.condition_nodes import EvaluatedFormatConstraint

        def mk(key):
            async def ev(self, entered_input):
                await detloop.yields(ycount_by_text.get(entered_input, 0))
                log.fc.append((key, entered_input))
                ok = verdict(key, entered_input)
                return EvaluatedFormatConstraint(format_constraint_fulfilled=ok, error_message=None if ok else f"[{key}] rejects <{entered_input}>")

            return ev

        cls = type("TextFc", (FcEvaluator,), {"evaluate_950": mk("950"), "evaluate_951": mk("951")})
        fc = cls()
        fc.edifact_format, fc.edifact_format_version = env.FMT, env.FV
        rc = env.make_rc_evaluator({"1": env.STATES[0], "2": env.STATES[0]}, {"1": yr, "2": 0}, log)
        env.configure([rc, fc, env.YHints({}, {}, log), env.YResolver({"10P": "[2][950]"}, [], log)])
    des = [_mk(i) for i in range(NEL)]
    seg_a = Segment(discriminator="SEG-A", ahb_expression="Muss", data_elements=des[:3], section_name="s", segment_id="00001")
    seg_b = Segment(discriminator="SEG-B", ahb_expression="Kann", data_elements=des[3:5], section_name="s", segment_id="00002")
    # a three-element segment: filled element first, then one without any input (None), then an empty one; the filled one gets its format constraint through a package
    extra = [DataElementFreeText(discriminator=ELEMS[i][0], ahb_expression=ELEMS[i][1], entered_input=ELEMS[i][2], data_element_id=f"001{i}") for i in (5, 9, 6)]
    seg_c = Segment(discriminator="SEG-C", ahb_expression="Muss", data_elements=extra, section_name="s", segment_id="00003")
    # the same expression as D5 (format constraint hidden behind a package) with another input, six group levels deeper:
    # it is evaluated after D5 has long finished
    deep = [DataElementFreeText(discriminator=ELEMS[7][0], ahb_expression=ELEMS[7][1], entered_input=ELEMS[7][2], data_element_id="0027")]
    seg_d = Segment(discriminator="SEG-D", ahb_expression="Muss", data_elements=deep, section_name="s", segment_id="00004")
    d = dict(y0=y0, y1=y1, y2=y2, y3=y3, y4=y4, yr=yr)
    try:
        if ENTRY == 0:
            inner = SegmentGroup(discriminator="SG-VI", ahb_expression="Kann", segments=[seg_d], segment_groups=[])
            for lvl in ("V", "IV", "III", "II", "I"):
                inner = SegmentGroup(discriminator=f"SG-{lvl}", ahb_expression="Muss [1]", segments=[], segment_groups=[inner])
            ahb = DeepAnwendungshandbuch(meta=AhbMetaInformation(pruefidentifikator="11042"), lines=[SegmentGroup(discriminator="SG", ahb_expression="Muss", segments=[seg_a, seg_b, seg_c], segment_groups=[inner])])
            res = detloop.run(validate_deep_anwendungshandbuch(ahb))
        else:
            res = detloop.run(validate_segment(seg_a)) + detloop.run(validate_segment(seg_b)) + detloop.run(validate_segment(seg_c)) + detloop.run(validate_segment(seg_d))
    except Exception as e:  # pylint:disable=broad-except
        xs.reached()
        return xs.fail(f"validation raised {type(e).__name__}: {e} (yields {ys})", **d)
    recorded = list(log.fc)
    # each element validated on its own (fresh elements, nothing else running)
    solo = {}
    elems = list(range(NEL)) + [5, 6, 7, 9]
    for i in elems:
        parent = RVV.IS_OPTIONAL if i in (3, 4) or (i == 7 and ENTRY == 0) else RVV.IS_REQUIRED
        r = detloop.run(validate_data_element_freetext(_mk(i), parent))
        solo[ELEMS[i][0]] = (r.validation_result.requirement_validation.value, r.validation_result.format_validation_fulfilled, r.validation_result.format_error_message)
    xs.reached()
    by_disc = {r.discriminator: r.validation_result for r in res}
    texts = texts + [ELEMS[5][2], ELEMS[6][2], ELEMS[7][2], ELEMS[9][2]]
    for i in elems:
        disc, expr, text = ELEMS[i]
        if disc not in by_disc:
            return xs.fail(f"element {disc} is not reported (yields {ys})", **d)
        v = by_disc[disc]
        got = (v.requirement_validation.value, v.format_validation_fulfilled, v.format_error_message)
        keys = [k for k in ("950", "951") if f"[{k}]" in expr.replace("[10P]", "[2][950]")]
        want_ok = all(verdict(k, text) for k in keys)
        if bool(v.format_validation_fulfilled) != want_ok:
            return xs.fail(f"element {disc} ('{expr}', input {text!r}): format validation {v.format_validation_fulfilled} ({v.format_error_message!r}); judged against its own input it is {want_ok}; evaluator yields by text {dict(zip(texts, ys))}", **d)
        if v.format_error_message and any(f"<{t}>" in v.format_error_message for t in texts if t != text):
            return xs.fail(f"element {disc} (input {text!r}) carries an error message about another element's input: {v.format_error_message!r}", **d)
        if got != solo[disc]:
            return xs.fail(f"element {disc}: result inside the AHB {got} differs from validating the element on its own {solo[disc]} (yields {ys})", **d)
    return True
