"""XH harnesses for C18: list-based key extraction, CategorizedKeyExtract.__add__, enumeration of possible results.
Keys are picked by symbolic index selectors from a boundary pool (DESIGN §C18); the numeric side (all integers) is
decided separately by the PZ range lemma."""
from typing import List

from ahbicht.expressions.condition_expression_parser import extract_categorized_keys_from_tree
from ahbicht.models.categorized_key_extract import CategorizedKeyExtract
from ahbicht.models.condition_nodes import ConditionFulfilledValue as CFV
from ahbicht.models.condition_nodes import EvaluatedFormatConstraint

from vf import xs

POOL = ("1", "2", "7", "499", "500", "900", "901", "999", "2000", "2499")
NPOOL = len(POOL)
FIX_A = -1  # partition: index of the first key of list A is fixed to this value (-1: unrestricted)
FIX_B = -1
FIX_M = 1
FIX_N = 1


def cat(key: str) -> str:
    n = int(key)
    if 1 <= n <= 499 or 2000 <= n <= 2499:
        return "rc"
    if 500 <= n <= 900:
        return "hint"
    if 901 <= n <= 999:
        return "fc"
    raise xs.HarnessError("pool key outside every range")


def _expected(keys: List[str]):
    exp = {"rc": [], "hint": [], "fc": []}
    for k in sorted(set(keys), key=int):
        exp[cat(k)].append(k)
    return exp


def _observe(x: CategorizedKeyExtract):
    return {"rc": list(x.requirement_constraint_keys), "hint": list(x.hint_keys), "fc": list(x.format_constraint_keys)}


def _mk(n: int, i: int, j: int, k: int) -> List[str]:
    return [POOL[i], POOL[j], POOL[k]][:n]


def extract_list(n: int, i: int, j: int, k: int) -> bool:
    """
    pre: 0 <= n <= 3 and 0 <= i < NPOOL and 0 <= j < NPOOL and 0 <= k < NPOOL
    pre: FIX_A < 0 or i == FIX_A
    pre: (n >= 3 or k == 0) and (n >= 2 or j == 0) and (n >= 1 or i == max(FIX_A, 0))
    post: _
    """
    xs.path_start()
    n, i, j, k = xs.pick(n, 0, 4), xs.pick(i, 0, NPOOL), xs.pick(j, 0, NPOOL), xs.pick(k, 0, NPOOL)
    keys = _mk(n, i, j, k)
    try:
        got = _observe(extract_categorized_keys_from_tree(list(keys), sanitize=True))
    except Exception as e:  # pylint:disable=broad-except
        xs.reached()
        return xs.fail(f"extract({keys}) raised {type(e).__name__}: {e}", n=n, i=i, j=j, k=k)
    xs.reached()
    exp = _expected(keys)
    if got != exp:
        return xs.fail(f"extract({keys}, sanitize=True) = {got}, expected each key once, by range, ascending: {exp}", n=n, i=i, j=j, k=k)
    return True


def add_extracts(na: int, ia: int, ja: int, nb: int, ib: int, jb: int) -> bool:
    """
    pre: 0 <= na <= 2 and 0 <= nb <= 2
    pre: 0 <= ia < NPOOL and 0 <= ja < NPOOL and 0 <= ib < NPOOL and 0 <= jb < NPOOL
    pre: (FIX_A < 0 or ia == FIX_A) and (FIX_B < 0 or ib == FIX_B)
    pre: (na >= 2 or ja == 0) and (na >= 1 or ia == max(FIX_A, 0)) and (nb >= 2 or jb == 0) and (nb >= 1 or ib == max(FIX_B, 0))
    post: _
    """
    xs.path_start()
    na, ia, ja, nb, ib, jb = xs.pick(na, 0, 3), xs.pick(ia, 0, NPOOL), xs.pick(ja, 0, NPOOL), xs.pick(nb, 0, 3), xs.pick(ib, 0, NPOOL), xs.pick(jb, 0, NPOOL)
    a, b = _mk(na, ia, ja, 0), _mk(nb, ib, jb, 0)
    try:
        ea = extract_categorized_keys_from_tree(list(a), sanitize=False)
        eb = extract_categorized_keys_from_tree(list(b), sanitize=True)
        before = (_observe(ea), _observe(eb))
        got = _observe(ea + eb)
        after = (_observe(ea), _observe(eb))
    except Exception as e:  # pylint:disable=broad-except
        xs.reached()
        return xs.fail(f"extract({a}) + extract({b}) raised {type(e).__name__}: {e}", na=na, ia=ia, ja=ja, nb=nb, ib=ib, jb=jb)
    xs.reached()
    exp = _expected(a + b)
    if got != exp:
        return xs.fail(f"extract({a}) + extract({b}) = {got}, expected the union {exp}", na=na, ia=ia, ja=ja, nb=nb, ib=ib, jb=jb)
    if before != after:
        return xs.fail(f"__add__ modified a summand: {before} -> {after}", na=na, ia=ia, ja=ja, nb=nb, ib=ib, jb=jb)
    return True


RCK = ("1", "2", "499", "2000")
FCK = ("901", "950", "999")
HK = ("500", "900")


def enumerate_results(m: int, n: int, h: int, r0: int, f0: int) -> bool:
    """
    pre: m == FIX_M and n == FIX_N and 0 <= h <= 1 and m + n >= 1
    pre: 0 <= r0 < len(RCK) and 0 <= f0 < len(FCK) and (m > 0 or r0 == 0) and (n > 0 or f0 == 0)
    post: _
    """
    xs.path_start()
    m, n, h, r0, f0 = xs.pick(m, 0, 4), xs.pick(n, 0, 4), xs.pick(h, 0, 2), xs.pick(r0, 0, len(RCK)), xs.pick(f0, 0, len(FCK))
    rcs = [RCK[(r0 + t) % len(RCK)] for t in range(m)]
    fcs = [FCK[(f0 + t) % len(FCK)] for t in range(n)]
    hs = list(HK[:h])
    x = CategorizedKeyExtract(hint_keys=hs, format_constraint_keys=fcs, requirement_constraint_keys=rcs, package_keys=[], time_condition_keys=[])
    try:
        res = x.generate_possible_content_evaluation_results()
    except Exception as e:  # pylint:disable=broad-except
        xs.reached()
        return xs.fail(f"generate raised {type(e).__name__}: {e}", m=m, n=n, h=h, r0=r0, f0=f0)
    xs.reached()
    seen = set()
    for cer in res:
        if sorted(cer.requirement_constraints) != sorted(rcs) or sorted(cer.format_constraints) != sorted(fcs):
            return xs.fail(f"result with foreign/missing keys: rc={dict(cer.requirement_constraints)} fc={list(cer.format_constraints)} for rc keys {rcs}, fc keys {fcs}", m=m, n=n, h=h, r0=r0, f0=f0)
        for v in cer.requirement_constraints.values():
            if v not in (CFV.FULFILLED, CFV.UNFULFILLED, CFV.UNKNOWN):
                return xs.fail(f"result assigns {v} to a requirement key", m=m, n=n, h=h, r0=r0, f0=f0)
        for v in cer.format_constraints.values():
            if not isinstance(v, EvaluatedFormatConstraint) or not isinstance(v.format_constraint_fulfilled, bool):
                return xs.fail(f"format value {v!r}", m=m, n=n, h=h, r0=r0, f0=f0)
        sig = (tuple(cer.requirement_constraints[k].value for k in rcs), tuple(cer.format_constraints[k].format_constraint_fulfilled for k in fcs))
        if sig in seen:
            return xs.fail(f"combination {sig} generated twice", m=m, n=n, h=h, r0=r0, f0=f0)
        seen.add(sig)
    if len(seen) != 3**m * 2**n:
        return xs.fail(f"{len(seen)} distinct combinations for m={m} rc keys, n={n} fc keys; expected {3**m * 2**n}", m=m, n=n, h=h, r0=r0, f0=f0)
    return True


# =====================================================================================================================
# tree-based extraction, with and without package / time-condition resolution; union over composition
# =====================================================================================================================
import re as _re

from ahbicht.expressions.condition_expression_parser import extract_categorized_keys

from vf import detloop as _detloop
from vf import env as _env

T_LO = 0
T_HI = 1
_TCASES = []
PKG_TABLE = {"1P": "[10] U [501]", "2P": "[UB3] O [13]", "3P": "[11] U [12][901]"}


def tree_cases():
    if _TCASES:
        return _TCASES
    from vf.harness import resolve_harness

    resolve_harness.LEVEL = 0
    base = [c for c in resolve_harness.cases()][::2]
    base += ["[100]U([2]U([53]O[4]))[999][502]U[3P]", "[2] U [1] U [2]", "Muss [7] O [7] Soll [902][7] Kann", "[UB3] O [UB1] U [2P]"]
    _TCASES.extend(base)
    return _TCASES


def _expected_extract(text, flags):
    """from the text alone: (rc, hints, fc, packages, time conditions) — condition keys unique and ascending"""
    do_pkg, do_time = bool(flags & 1), bool(flags & 2)
    from vf.harness.resolve_harness import substitute

    sub = substitute(text, PKG_TABLE, do_pkg, do_time)
    keys = sorted({k for k in _re.findall(r"\[(\d+)\]", sub)}, key=int)
    rc = [k for k in keys if cat(k) == "rc"]
    return {
        "rc": rc,
        "hint": [k for k in keys if cat(k) == "hint"],
        "fc": [k for k in keys if cat(k) == "fc"],
        "pkg": sorted(set(_re.findall(r"\[(\d+P)(?:\d+\.\.\d+)?\]", sub))),
        "time": sorted(set(_re.findall(r"\[(UB[123])\]", sub))),
    }


def extract_tree(idx: int, flags: int, flags_before: int) -> bool:
    """
    pre: T_LO <= idx < T_HI and 0 <= flags < 4 and 0 <= flags_before < 5
    post: _
    """
    xs.path_start()
    idx, flags, fb = xs.pick(idx, T_LO, T_HI), xs.pick(flags, 0, 4), xs.pick(flags_before, 0, 5)
    with xs.nt():
        text = tree_cases()[idx]
    _env.setup(packages=dict(PKG_TABLE))
    from vf.harness import cache_harness

    cache_harness.setup()  # the REAL lru_cache (CrossHair would bypass it): an earlier extraction must not leak through it
    d = dict(idx=idx, flags=flags, flags_before=flags_before)

    def call(fl):
        return _detloop.run(extract_categorized_keys(text, resolve_packages=bool(fl & 1), replace_time_conditions=bool(fl & 2)))

    try:
        if fb < 4:
            call(fb)  # an earlier extraction of the same expression with other flags must not influence this one
        x = call(flags)
    except Exception as e:  # pylint:disable=broad-except
        xs.reached()
        return xs.fail(f"extract_categorized_keys('{text}', flags={flags}) raised {type(e).__name__}: {e}", **d)
    xs.reached()
    with xs.nt():
        want = _expected_extract(text, flags)
    got = {"rc": list(x.requirement_constraint_keys), "hint": list(x.hint_keys), "fc": list(x.format_constraint_keys), "pkg": sorted(x.package_keys), "time": sorted(x.time_condition_keys)}
    if got != want:
        return xs.fail(f"extract_categorized_keys('{text}', resolve_packages={bool(flags & 1)}, replace_time_conditions={bool(flags & 2)}{'' if fb == 4 else f', after an extraction with flags {fb}'}) = {got}, from the text: {want}", **d)
    return True
