"""
Validation layer (C13, C14, C16, C17): step lemmas on the REAL validate_* functions.  Callees are replaced in
ahbicht.validation.validation's namespace by recording stubs (the recursive calls by stubs that satisfy the callee's own
contract), evaluation by a stub keyed by the node's expression string that returns a symbolic
(indicator, outcome, hints, format result) or raises InvalidExpressionError (DESIGN §3.3).

MODE in {"C13", "C14", "C16", "C17"} selects which part of the contract is asserted.
"""
from typing import Optional

from maus.models.edifact_components import DataElementFreeText, DataElementValuePool, Segment, SegmentGroup, ValuePoolEntry

import ahbicht.validation.validation as V
from ahbicht.expressions import InvalidExpressionError
from ahbicht.models.enums import ModalMark, PrefixOperator
from ahbicht.models.evaluation_results import AhbExpressionEvaluationResult, FormatConstraintEvaluationResult, RequirementConstraintEvaluationResult
from ahbicht.models.validation_results import DataElementValidationResult, SegmentLevelValidationResult, ValidationResultInContext
from ahbicht.models.validation_values import RequirementValidationValue as RVV

from vf import detloop, refval, xs

MODE = "C13"
FIXOWN = -1
FIXSEG = -1
FIXN = -1
SAME02 = 0  # value pool of three entries whose first and last entry share one expression string
WIDE = None  # (sub-groups, segments) / data elements / root groups: overrides the symbolic child counts with a wide node
FIXC0 = -1
INDICATORS = (ModalMark.MUSS, ModalMark.SOLL, ModalMark.KANN, PrefixOperator.X, PrefixOperator.O, PrefixOperator.U)
OUTCOMES = (True, False, None)
NCLS = 19  # 6 indicators x 3 outcomes + invalid
STATUS = (RVV.IS_REQUIRED, RVV.IS_OPTIONAL, RVV.IS_FORBIDDEN)
PATCHED = ("parse_expression_including_unresolved_subexpressions", "evaluate_ahb_expression_tree")


def ev_of(cls: int, hints: Optional[str] = "hint", fc: bool = True):
    """abstract evaluation outcome of class cls"""
    if cls == 18:
        return ("invalid", "reason of invalidity")
    return ("ok", INDICATORS[cls // 3].name, OUTCOMES[cls % 3], hints, fc, None if fc else "format error")


class EvalStub:
    """replaces parse + evaluate in validation's namespace; expression strings are keys into `table`"""

    def __init__(self, table, ycount=None):
        self.table, self.calls, self.y = table, [], ycount or {}
        self.saved = {}

    def __enter__(self):
        for n in PATCHED:
            if not hasattr(V, n):
                raise xs.HarnessError(f"ahbicht.validation.validation.{n} not found (refactored?)")
            self.saved[n] = getattr(V, n)
        stub = self

        async def parse(expression, *a, **k):
            return ("tree-of", expression)

        async def evaluate(tree):
            expr = tree[1]
            stub.calls.append(expr)
            await detloop.yields(stub.y.get(expr, 0))
            ev = stub.table[expr]
            if ev[0] == "invalid":
                raise InvalidExpressionError(error_message=ev[1])
            ind = ModalMark[ev[1]] if ev[1] in ModalMark.__members__ else PrefixOperator[ev[1]]
            return AhbExpressionEvaluationResult(
                requirement_indicator=ind,
                requirement_constraint_evaluation_result=RequirementConstraintEvaluationResult(requirement_constraints_fulfilled=ev[2], requirement_is_conditional=(None if ev[2] is None else True), format_constraints_expression=None, hints=ev[3]),
                format_constraint_evaluation_result=FormatConstraintEvaluationResult(format_constraints_fulfilled=ev[4], error_message=ev[5]),
            )

        V.parse_expression_including_unresolved_subexpressions = parse
        V.evaluate_ahb_expression_tree = evaluate
        return self

    def __exit__(self, *exc):
        for n, f in self.saved.items():
            setattr(V, n, f)
        return False


class Patch:
    """temporarily replace names in validation's namespace"""

    def __init__(self, **repl):
        self.repl, self.saved = repl, {}

    def __enter__(self):
        for n, f in self.repl.items():
            if not hasattr(V, n):
                raise xs.HarnessError(f"ahbicht.validation.validation.{n} not found (refactored?)")
            self.saved[n] = getattr(V, n)
            setattr(V, n, f)
        return self

    def __exit__(self, *exc):
        for n, f in self.saved.items():
            setattr(V, n, f)
        return False


def _run(coro):
    try:
        return ("ok", detloop.run(coro))
    except NotImplementedError as e:
        return ("NotImplementedError", str(e))
    except InvalidExpressionError as e:
        return ("InvalidExpressionError", str(e))
    except Exception as e:  # pylint:disable=broad-except
        return ("raised", f"{type(e).__name__}: {e}")


def _rewrite_soll(cls: int, soll: bool) -> int:
    """class of the same node in the AHB where SOLL is rewritten to MUSS (flag) / KANN (no flag)"""
    if cls == 18 or cls // 3 != 1:
        return cls
    return (0 if soll else 2) * 3 + cls % 3


# ===================================================================================================== segment level node
def seg_level(cls: int, parent: int, soll: bool, flag2: bool) -> bool:
    """
    pre: 0 <= cls < NCLS and 0 <= parent < 3
    post: _
    """
    xs.path_start()
    cls, parent = xs.pick(cls, 0, NCLS), xs.pick(parent, 0, 3)
    par = (None, RVV.IS_REQUIRED, RVV.IS_OPTIONAL)[parent]
    node = Segment(discriminator="S", ahb_expression="E#node", data_elements=[], section_name="s", segment_id="00001")
    d = dict(cls=cls, parent=parent, soll=soll, flag2=flag2)
    ev = ev_of(cls)
    with EvalStub({"E#node": ev}) as st:
        got = _run(V.get_segment_level_requirement_validation_value(node, par, soll))
        called = len(st.calls)
    xs.reached()
    if called != 1:
        raise xs.HarnessError(f"evaluation stub called {called} times")
    name = f"segment-level node: expression evaluates to {ev[:3]}, parent status {par}, soll_is_required={xs.R(soll)}"
    if MODE == "C14":
        with EvalStub({"E#node": ev_of(_rewrite_soll(cls, bool(soll)))}):
            got2 = _run(V.get_segment_level_requirement_validation_value(node, par, flag2))
        a = (got[0], getattr(got[1], "requirement_validation", got[1] if got[0] != "ok" else None))
        b = (got2[0], getattr(got2[1], "requirement_validation", got2[1] if got2[0] != "ok" else None))
        if a[0] != b[0] or (a[0] == "ok" and a[1] is not b[1]):
            return xs.fail(f"{name}: {a}; but with SOLL rewritten to {'MUSS' if soll else 'KANN'} (and flag {xs.R(flag2)}): {b}", **d)
        return True
    try:
        want = ("ok",) + refval.node_status(ev, None if par is None else par.value, bool(soll))
    except refval.Undetermined:
        want = ("NotImplementedError",)
    if MODE == "C16":
        if ev[0] != "invalid":
            return True
        if got[0] != "ok" or got[1].requirement_validation is not RVV.IS_OPTIONAL or got[1].hints != ev[1]:
            return xs.fail(f"{name}: expected IS_OPTIONAL with the reason as hint, got {got}", **d)
        return True
    if ev[0] == "invalid":
        return True  # C16's subject
    if want[0] == "NotImplementedError":
        if got[0] != "NotImplementedError":
            return xs.fail(f"{name}: documented behaviour is NotImplementedError, got {got}", **d)
        return True
    if got[0] != "ok":
        return xs.fail(f"{name}: {got[0]} {got[1]}", **d)
    if got[1].requirement_validation.value != want[1] or got[1].hints != want[2]:
        return xs.fail(f"{name}: reported {got[1].requirement_validation.value} (hints {got[1].hints!r}), documented mapping x parent table gives {want[1]} (hints {want[2]!r})", **d)
    return True


# ===================================================================================================== recursion steps
def _canned(tag, n=2):
    return [ValidationResultInContext(discriminator=f"{tag}/{i}", validation_result=SegmentLevelValidationResult(requirement_validation=RVV.IS_OPTIONAL)) for i in range(n)]


def group_step(own: int, parent: int, ng: int, ns: int, soll: bool, y0: int, y1: int, y2: int) -> bool:
    """
    pre: (FIXOWN < 0 or own == FIXOWN) and 0 <= own < 4 and 0 <= parent < 4 and 0 <= ng <= 2 and 0 <= ns <= 2 and 0 <= y0 <= 1 and 0 <= y1 <= 1 and 0 <= y2 <= 1
    pre: WIDE is None or (ng == 0 and ns == 0)
    post: _
    """
    xs.path_start()
    own, parent, ng, ns = xs.pick(own, 0, 4), xs.pick(parent, 0, 4), xs.pick(ng, 0, 3), xs.pick(ns, 0, 3)
    if WIDE is not None:
        ng, ns = WIDE
    ys = [xs.pick(y0, 0, 2), xs.pick(y1, 0, 2), xs.pick(y2, 0, 2)]
    par = (None, RVV.IS_REQUIRED, RVV.IS_OPTIONAL, RVV.IS_FORBIDDEN)[parent]
    subs = [SegmentGroup(discriminator=f"G{i}", ahb_expression=f"E#G{i}", segments=[], segment_groups=[]) for i in range(ng)]
    segs = [Segment(discriminator=f"S{i}", ahb_expression=f"E#S{i}", data_elements=[], section_name="s", segment_id="00001") for i in range(ns)]
    grp = SegmentGroup(discriminator="G", ahb_expression="E#G", segments=segs, segment_groups=subs)
    calls = []
    orig_group = V.validate_segment_group

    async def own_status(segment_level, parent_req=None, soll_is_required=True):
        calls.append(("own", segment_level.discriminator, parent_req, soll_is_required))
        if own == 3:
            raise NotImplementedError("undetermined")
        return SegmentLevelValidationResult(requirement_validation=STATUS[own], hints="own hint")

    async def child_group(segment_group, parent_segment_group_requirement=None, soll_is_required=True):
        calls.append(("group", segment_group.discriminator, parent_segment_group_requirement, soll_is_required))
        await detloop.yields(ys[len(calls) % 3])
        return _canned(segment_group.discriminator)

    async def child_segment(segment, segment_group_requirement=None, soll_is_required=True):
        calls.append(("segment", segment.discriminator, segment_group_requirement, soll_is_required))
        await detloop.yields(ys[(len(calls) + 1) % 3])
        return _canned(segment.discriminator, 1)

    with Patch(get_segment_level_requirement_validation_value=own_status, validate_segment_group=child_group, validate_segment=child_segment):
        got = _run(orig_group(grp, par, soll))
    xs.reached()
    d = dict(own=own, parent=parent, ng=ng, ns=ns, soll=soll, y0=y0, y1=y1, y2=y2)
    soll_c = bool(xs.R(soll))
    name = f"validate_segment_group(own status {('REQUIRED', 'OPTIONAL', 'FORBIDDEN', 'undetermined')[own]}, parent {par}, {ng} sub-groups, {ns} segments, soll_is_required={soll_c})"
    if par is RVV.IS_FORBIDDEN:
        return True  # not reachable from validate_*: nothing below a forbidden group is visited (checked below)
    if own == 3:
        if MODE == "C13" and got[0] != "NotImplementedError":
            return xs.fail(f"{name}: an undetermined MUSS/prefix node must abort the run with NotImplementedError, got {got[0]}", **d)
        return True
    if got[0] != "ok":
        return xs.fail(f"{name}: {got[0]} {got[1]}", **d)
    res = got[1]
    child_calls = [c for c in calls if c[0] != "own"]
    if MODE == "C14":
        wrong = [c for c in child_calls if c[3] is not soll_c and c[3] != soll_c]
        if wrong:
            return xs.fail(f"{name}: children were validated with soll_is_required={[c[3] for c in child_calls]}", **d)
        own_calls = [c for c in calls if c[0] == "own"]
        if own_calls and own_calls[0][3] != soll_c:
            return xs.fail(f"{name}: own status computed with soll_is_required={own_calls[0][3]}", **d)
        return True
    if MODE != "C13":
        return True
    discs = [r.discriminator for r in res]
    if STATUS[own] is RVV.IS_FORBIDDEN:
        if discs != ["G"] or child_calls:
            return xs.fail(f"{name}: forbidden group must be reported alone, nothing below it; reported {discs}, children visited {child_calls}", **d)
        return True
    want = ["G"] + [f"G{i}/{k}" for i in range(ng) for k in range(2)] + [f"S{i}/0" for i in range(ns)]
    if discs != want:
        return xs.fail(f"{name}: reported {discs}, document order is {want}", **d)
    if res[0].validation_result.requirement_validation is not STATUS[own]:
        return xs.fail(f"{name}: own status reported as {res[0].validation_result.requirement_validation}", **d)
    if [c[2] for c in child_calls] != [STATUS[own]] * (ng + ns) or sorted(c[1] for c in child_calls) != sorted([f"G{i}" for i in range(ng)] + [f"S{i}" for i in range(ns)]):
        return xs.fail(f"{name}: children must each be validated once under the group's own status; calls {child_calls}", **d)
    return True


def segment_step(own: int, parent: int, nde: int, soll: bool, y0: int, y1: int) -> bool:
    """
    pre: 0 <= own < 4 and 0 <= parent < 4 and 0 <= nde <= 3 and 0 <= y0 <= 1 and 0 <= y1 <= 1
    pre: WIDE is None or nde == 0
    post: _
    """
    xs.path_start()
    own, parent, nde = xs.pick(own, 0, 4), xs.pick(parent, 0, 4), xs.pick(nde, 0, 4)
    if WIDE is not None:
        nde = WIDE
    ys = [xs.pick(y0, 0, 2), xs.pick(y1, 0, 2)]
    par = (None, RVV.IS_REQUIRED, RVV.IS_OPTIONAL, RVV.IS_FORBIDDEN)[parent]
    des = [DataElementFreeText(discriminator=f"D{i}", ahb_expression=f"E#D{i}", entered_input=None, data_element_id=f"{i:04d}") for i in range(nde)]
    seg = Segment(discriminator="S", ahb_expression="E#S", data_elements=des, section_name="s", segment_id="00001")
    calls = []

    async def own_status(segment_level, parent_req=None, soll_is_required=True):
        calls.append(("own", segment_level.discriminator, parent_req, soll_is_required))
        if own == 3:
            raise NotImplementedError("undetermined")
        return SegmentLevelValidationResult(requirement_validation=STATUS[own], hints="own hint")

    async def child_de(data_element, segment_requirement, soll_is_required=True):
        calls.append(("de", data_element.discriminator, segment_requirement, soll_is_required))
        await detloop.yields(ys[len(calls) % 2])
        return _canned(data_element.discriminator, 1)[0]

    with Patch(get_segment_level_requirement_validation_value=own_status, validate_data_element=child_de):
        got = _run(V.validate_segment(seg, par, soll))
    xs.reached()
    d = dict(own=own, parent=parent, nde=nde, soll=soll, y0=y0, y1=y1)
    soll_c = bool(xs.R(soll))
    name = f"validate_segment(own status {('REQUIRED', 'OPTIONAL', 'FORBIDDEN', 'undetermined')[own]}, parent {par}, {nde} data elements, soll_is_required={soll_c})"
    de_calls = [c for c in calls if c[0] == "de"]
    if par is RVV.IS_FORBIDDEN:
        if MODE == "C13" and (got[0] != "ok" or [r.discriminator for r in got[1]] != ["S"] or de_calls or got[1][0].validation_result.requirement_validation is not RVV.IS_FORBIDDEN):
            return xs.fail(f"{name}: below a forbidden group the segment is forbidden and nothing below it is visited; got {got}", **d)
        return True
    if own == 3:
        if MODE == "C13" and got[0] != "NotImplementedError":
            return xs.fail(f"{name}: an undetermined MUSS/prefix node must abort the run with NotImplementedError, got {got[0]}", **d)
        return True
    if got[0] != "ok":
        return xs.fail(f"{name}: {got[0]} {got[1]}", **d)
    if MODE == "C14":
        if any(c[3] != soll_c for c in calls):
            return xs.fail(f"{name}: soll_is_required reaches own status / data elements as {[(c[0], c[1], c[3]) for c in calls]}", **d)
        return True
    if MODE != "C13":
        return True
    discs = [r.discriminator for r in got[1]]
    if STATUS[own] is RVV.IS_FORBIDDEN:
        if discs != ["S"] or de_calls:
            return xs.fail(f"{name}: forbidden segment must be reported alone; reported {discs}, data elements visited {de_calls}", **d)
        return True
    want = ["S"] + [f"D{i}/0" for i in range(nde)]
    if discs != want or [c[1] for c in de_calls] != [f"D{i}" for i in range(nde)] or any(c[2] is not STATUS[own] for c in de_calls):
        return xs.fail(f"{name}: reported {discs} (document order {want}); data element calls {de_calls}", **d)
    return True


def deep_step(n: int, soll: bool, y0: int, y1: int, y2: int) -> bool:
    """
    pre: 0 <= n <= 3 and 0 <= y0 <= 2 and 0 <= y1 <= 2 and 0 <= y2 <= 2
    pre: WIDE is None or n == 0
    post: _
    """
    xs.path_start()
    from maus.models.anwendungshandbuch import AhbMetaInformation, DeepAnwendungshandbuch

    n = xs.pick(n, 0, 4)
    if WIDE is not None:
        n = WIDE
    ys = [xs.pick(y0, 0, 3), xs.pick(y1, 0, 3), xs.pick(y2, 0, 3)]
    groups = [SegmentGroup(discriminator=f"G{i}", ahb_expression=f"E#G{i}", segments=[], segment_groups=[]) for i in range(n)]
    ahb = DeepAnwendungshandbuch(meta=AhbMetaInformation(pruefidentifikator="11042"), lines=groups)
    calls = []

    async def child_group(segment_group, parent_segment_group_requirement=None, soll_is_required=True):
        calls.append((segment_group.discriminator, parent_segment_group_requirement, soll_is_required))
        await detloop.yields(ys[int(segment_group.discriminator[1:]) % 3])
        return _canned(segment_group.discriminator)

    with Patch(validate_segment_group=child_group):
        got = _run(V.validate_deep_anwendungshandbuch(ahb, soll))
    xs.reached()
    d = dict(n=n, soll=soll, y0=y0, y1=y1, y2=y2)
    soll_c = bool(xs.R(soll))
    if got[0] != "ok":
        return xs.fail(f"validate_deep_anwendungshandbuch({n} root groups): {got}", **d)
    if MODE == "C14":
        if any(c[2] != soll_c for c in calls):
            return xs.fail(f"validate_deep_anwendungshandbuch(soll_is_required={soll_c}): root groups validated with {[c[2] for c in calls]}", **d)
        return True
    want = [f"G{i}/{k}" for i in range(n) for k in range(2)]
    if [r.discriminator for r in got[1]] != want or [c[0] for c in calls] != [f"G{i}" for i in range(n)] or any(c[1] is not None for c in calls):
        return xs.fail(f"validate_deep_anwendungshandbuch: reported {[r.discriminator for r in got[1]]}, document order {want}; calls {calls}", **d)
    return True


DISPATCH_INPUTS = (None, "", "A", "A ", " A", "  ", "a")


def dispatch_step(kind: int, seg: int, soll: bool, inp: int) -> bool:
    """
    pre: 0 <= kind < 2 and 0 <= seg < 3 and 0 <= inp < len(DISPATCH_INPUTS)
    post: _
    """
    xs.path_start()
    kind, seg, inp = xs.pick(kind, 0, 2), xs.pick(seg, 0, 3), xs.pick(inp, 0, len(DISPATCH_INPUTS))
    calls = []
    entered = DISPATCH_INPUTS[inp]
    de = (
        DataElementFreeText(discriminator="D", ahb_expression="E#D", entered_input=entered, data_element_id="0001")
        if kind == 0
        else DataElementValuePool(discriminator="D", value_pool=[ValuePoolEntry(qualifier="A", meaning="a", ahb_expression="X")], entered_input=entered, data_element_id="0001")
    )
    seen = []

    async def ft(data_element, segment_requirement=None, soll_is_required=True):
        calls.append(("freetext", segment_requirement, soll_is_required))
        seen.append(data_element.entered_input)
        return _canned("D", 1)[0]

    async def vp(data_element, segment_requirement, *more, **kwmore):
        calls.append(("valuepool", segment_requirement, None))
        seen.append(data_element.entered_input)
        return _canned("D", 1)[0]

    with Patch(validate_data_element_freetext=ft, validate_data_element_valuepool=vp):
        got = _run(V.validate_data_element(de, STATUS[seg], soll))
    xs.reached()
    d = dict(kind=kind, seg=seg, soll=soll, inp=inp)
    soll_c = bool(xs.R(soll))
    want_kind = "freetext" if kind == 0 else "valuepool"
    if got[0] != "ok" or len(calls) != 1 or calls[0][0] != want_kind or calls[0][1] is not STATUS[seg]:
        return xs.fail(f"validate_data_element({want_kind}, segment status {STATUS[seg]}): {got[0]}, calls {calls}", **d)
    if MODE in ("C17", "C15") and seen and seen[0] != entered:
        with xs.nt():
            what = f"validate_data_element({want_kind}) was given the entered value <{entered}> but judges <{seen[0]}> (a value that is not offered must be flagged as it was entered)"
        return xs.fail(what, **d)
    if MODE == "C14" and kind == 0 and calls[0][2] != soll_c:
        return xs.fail(f"validate_data_element(free text, soll_is_required={soll_c}) passes soll_is_required={calls[0][2]} on", **d)
    return True


# ===================================================================================================== data elements
INPUTS = (None, "", "some text")


def freetext_step(cls: int, seg: int, soll: bool, inp: int, fc: bool, flag2: bool) -> bool:
    """
    pre: (FIXSEG < 0 or seg == FIXSEG) and 0 <= cls < NCLS and 0 <= seg < 3 and 0 <= inp < 3
    post: _
    """
    xs.path_start()
    cls, seg, inp = xs.pick(cls, 0, NCLS), xs.pick(seg, 0, 3), xs.pick(inp, 0, 3)
    segst = (None, RVV.IS_REQUIRED, RVV.IS_OPTIONAL)[seg]
    fc_c = bool(xs.R(fc))
    ev = ev_of(cls, fc=fc_c)
    de = DataElementFreeText(discriminator="D", ahb_expression="E#D", entered_input=INPUTS[inp], data_element_id="0001")
    with EvalStub({"E#D": ev}) as st:
        got = _run(V.validate_data_element_freetext(de, segst, soll))
        ncalls = len(st.calls)
    xs.reached()
    if ncalls != 1:
        raise xs.HarnessError(f"evaluation stub called {ncalls} times")
    d = dict(cls=cls, seg=seg, soll=soll, inp=inp, fc=fc, flag2=flag2)
    soll_c = bool(xs.R(soll))
    with xs.nt():
        name = f"free-text element: expression evaluates to {ev[:3]}, segment status {segst}, soll_is_required={soll_c}, input {INPUTS[inp]!r}"

    def obs(g):
        if g[0] != "ok":
            return (g[0],)
        r = g[1].validation_result
        return ("ok", r.requirement_validation.value, r.format_validation_fulfilled, r.format_error_message, r.hints, g[1].discriminator)

    if MODE == "C14":
        de2 = DataElementFreeText(discriminator="D", ahb_expression="E#D", entered_input=INPUTS[inp], data_element_id="0001")
        with EvalStub({"E#D": ev_of(_rewrite_soll(cls, soll_c), fc=fc_c)}):
            got2 = _run(V.validate_data_element_freetext(de2, segst, flag2))
        if obs(got) != obs(got2):
            return xs.fail(f"{name}: {obs(got)}; with SOLL rewritten to {'MUSS' if soll_c else 'KANN'} (flag {xs.R(flag2)}): {obs(got2)}", **d)
        return True
    try:
        want = refval.freetext(ev, None if segst is None else segst.value, soll_c, INPUTS[inp])
    except refval.Undetermined:
        want = None
    if MODE == "C16":
        if ev[0] != "invalid":
            return True
        o = obs(got)
        if o[0] != "ok" or not o[1].startswith("IS_OPTIONAL") or o[4] != ev[1]:
            return xs.fail(f"{name}: expected optional with the reason as hint, got {o}", **d)
        return True
    if MODE != "C13" or ev[0] == "invalid":
        return True
    if want is None:
        if got[0] != "NotImplementedError":
            return xs.fail(f"{name}: documented behaviour is NotImplementedError, got {obs(got)}", **d)
        return True
    o = obs(got)
    exp_status = want["status_base"] + want["suffix"]
    if o[0] != "ok" or o[1] != exp_status or o[5] != "D":
        return xs.fail(f"{name}: reported {o}, documented status {exp_status}", **d)
    if o[2] != want["fc"] or o[3] != want["fc_msg"] or o[4] != want["hints"]:
        return xs.fail(f"{name}: format result / hints {o[2:5]} differ from the element's own evaluation {(want['fc'], want['fc_msg'], want['hints'])}", **d)
    return True


QUALS = ("Z01", "Z1", "E17")
VP_INPUTS = (None, "", "Z01", "Z1", "E17", "ZZZ", "Z0", "Z01, Z1")


def valuepool_step(n: int, c0: int, c1: int, c2: int, seg: int, inp: int, y0: int) -> bool:
    """
    pre: (FIXN < 0 or n == FIXN) and (FIXSEG < 0 or seg == FIXSEG) and (FIXC0 < 0 or c0 == FIXC0) and (n >= 3 or c2 == 0) and (n >= 2 or c1 == 0)
    pre: 1 <= n <= 3 and 0 <= c0 < 4 and 0 <= c1 < 4 and 0 <= c2 < 4 and 0 <= seg < 3 and 0 <= inp < len(VP_INPUTS) and 0 <= y0 <= 1
    post: _
    """
    xs.path_start()
    # entry classes: 0 fulfilled, 1 unfulfilled, 2 undetermined, 3 invalid expression
    n, seg, inp, y0 = xs.pick(n, 1, 4), xs.pick(seg, 0, 3), xs.pick(inp, 0, len(VP_INPUTS)), xs.pick(y0, 0, 2)
    cs = [xs.pick(c, 0, 4) for c in (c0, c1, c2)][:n]
    if n < 3 and c2 != 0 or n < 2 and c1 != 0:
        return True
    segst = STATUS[seg]
    evs = [("invalid", "reason of invalidity") if c == 3 else ("ok", ("X", "KANN", "MUSS")[i], OUTCOMES[c], None, True, None) for i, c in enumerate(cs)]
    if SAME02 and n == 3:
        cs[2], evs[2] = cs[0], evs[0]  # first and last entry carry the very same expression
    entries = [ValuePoolEntry(qualifier=QUALS[i], meaning=f"meaning {i}", ahb_expression=f"E#Q{0 if (SAME02 and i == 2) else i}") for i in range(n)]
    de = DataElementValuePool(discriminator="D", value_pool=entries, entered_input=VP_INPUTS[inp], data_element_id="0001")
    if SAME02 and n == 3 and c2 != 0:
        return True
    with EvalStub({f"E#Q{i}": evs[i] for i in range(n)}, {"E#Q0": y0}):
        got = _run(V.validate_data_element_valuepool(de, segst))
    xs.reached()
    d = dict(n=n, c0=c0, c1=c1, c2=c2, seg=seg, inp=inp, y0=y0)
    want = refval.valuepool([(QUALS[i], evs[i]) for i in range(n)], segst.value, VP_INPUTS[inp])
    with xs.nt():
        name = f"value pool {[(QUALS[i], ('fulfilled', 'unfulfilled', 'undetermined', 'invalid expression')[cs[i]]) for i in range(n)]}, segment status {segst.value}, entered {VP_INPUTS[inp]!r}"
    if got[0] != "ok":
        if MODE in ("C17", "C16"):
            return xs.fail(f"{name}: {got[0]} {got[1]}", **d)
        return True
    r = got[1].validation_result
    offered = list((r.possible_values or {}).keys())
    if MODE == "C16":
        if 3 not in cs or segst is RVV.IS_FORBIDDEN:
            return True
        inv = [QUALS[i] for i in range(n) if cs[i] == 3]
        if any(q not in offered for q in inv):
            return xs.fail(f"{name}: an entry with an invalid expression must be treated as selectable; offered {offered}", **d)
        others_want = [q for q in want["offered"]]
        if offered != others_want:
            return xs.fail(f"{name}: offered {offered}, expected {others_want} (the invalid entry as if it were 'Kann')", **d)
        return True
    if MODE != "C17":
        return True
    status = r.requirement_validation.value
    if want.get("forbidden"):
        if offered or not status.startswith("IS_FORBIDDEN"):
            return xs.fail(f"{name}: nothing is offered, the element must be reported forbidden; reported {status}, offered {offered}", **d)
        return True
    if offered != want["offered"]:
        return xs.fail(f"{name}: offered {offered}, admissible qualifiers in pool order are {want['offered']}", **d)
    flagged = r.format_validation_fulfilled is False
    if want["input"] == "accepted" and (flagged or not status.endswith("_AND_FILLED")):
        return xs.fail(f"{name}: an offered value must be accepted; reported {status}, flagged={flagged}", **d)
    if want["input"] == "unexpected" and (not flagged or not status.endswith("_AND_EMPTY")):
        return xs.fail(f"{name}: a value that is not offered must be flagged and reported empty; reported {status}, flagged={flagged}", **d)
    if want["input"] == "absent" and (flagged or not status.endswith("_AND_EMPTY")):
        return xs.fail(f"{name}: no input: reported {status}, flagged={flagged}", **d)
    return True
