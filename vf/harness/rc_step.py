"""
Step lemmas (DESIGN §3.1) on the REAL RequirementConstraintTransformer callbacks.
Operands are abstract node states chosen by symbolic selectors:
   0..2  RequirementConstraint FULFILLED / UNFULFILLED / UNKNOWN
   3     Hint
   4     UnevaluatedFormatConstraint
   5..20 EvaluatedComposition(value in 4 states x hint present? x format-constraint expression present?)
Invariant Inv assumed for operands and asserted for results: value NEUTRAL <=> no requirement constraint below
(so 'has a requirement constraint' == value != NEUTRAL); RC never NEUTRAL; Hint/UFC always NEUTRAL.

Module globals per job: MODE in {"C04","C05","C06"}, OP (0 and,1 or,2 xor,3 then_also), L_LO/L_HI partition of lsel.
"""
from ahbicht.expressions import InvalidExpressionError
from ahbicht.expressions.requirement_constraint_expression_evaluation import RequirementConstraintTransformer
from ahbicht.models.condition_nodes import ConditionFulfilledValue as CFV
from ahbicht.models.condition_nodes import EvaluatedComposition, Hint, RequirementConstraint, UnevaluatedFormatConstraint

from vf import refsem, xs

MODE = "C04"
OP = 0
L_LO = 0
L_HI = 21
NSEL = 21
VALS = (CFV.FULFILLED, CFV.UNFULFILLED, CFV.UNKNOWN, CFV.NEUTRAL)
CALLBACKS = ("and_composition", "or_composition", "xor_composition", "then_also_composition")
TABLE = (refsem.t_and, refsem.t_or, refsem.t_xor)


def mk(sel: int, side: str):
    """abstract operand -> (real node, kind)"""
    rck, hk, fk = ("1", "501", "901") if side == "l" else ("2", "502", "902")
    if sel < 3:
        return RequirementConstraint(condition_key=rck, conditions_fulfilled=VALS[sel]), "rc"
    if sel == 3:
        return Hint(condition_key=hk, hint=f"Hinweis {hk}"), "hint"
    if sel == 4:
        return UnevaluatedFormatConstraint(condition_key=fk), "fc"
    s = sel - 5
    v, hint, fce = VALS[s % 4], (s // 4) % 2, (s // 8) % 2
    return (
        EvaluatedComposition(conditions_fulfilled=v, hint=(f"Hinweis {hk}" if hint else None), format_constraints_expression=(f"[{fk}] U [9{fk[1:]}]" if fce else None)),
        "comp",
    )


def _call(op: int, l, r):
    t = RequirementConstraintTransformer({})
    fn = getattr(t, CALLBACKS[op])
    try:
        return ("ok", fn(l, r))
    except InvalidExpressionError as e:
        return ("invalid", e)
    except Exception as e:  # pylint:disable=broad-except
        return ("raised", e)


def _expected(op: int, l, lk, r, rk):
    """('value', name) | ('invalid',) | None (outside the quantifier)"""
    lv, rv = l.conditions_fulfilled.name, r.conditions_fulfilled.name
    if op == 0:
        return ("value", refsem.t_and(lv, rv))
    if op in (1, 2):
        if (lv == "NEUTRAL") != (rv == "NEUTRAL"):
            return ("invalid",)
        if {lk, rk} == {"hint", "fc"}:
            return ("invalid",)
        return ("value", TABLE[op](lv, rv))
    # then_also: exactly one single format constraint, the partner is a hint or carries a requirement constraint
    if (lk == "fc") == (rk == "fc"):
        return None
    other, ok = (r, rk) if lk == "fc" else (l, lk)
    if ok == "hint":
        return ("value", "NEUTRAL")
    if other.conditions_fulfilled.name == "NEUTRAL":
        return None
    return ("value", other.conditions_fulfilled.name)


def step(lsel: int, rsel: int) -> bool:
    """
    pre: L_LO <= lsel < L_HI and 0 <= rsel < NSEL
    post: _
    """
    xs.path_start()
    op = OP
    lsel, rsel = xs.pick(lsel, L_LO, L_HI), xs.pick(rsel, 0, NSEL)
    (l, lk), (r, rk) = mk(lsel, "l"), mk(rsel, "r")
    exp = _expected(op, l, lk, r, rk)
    if exp is None:
        return True
    got = _call(op, l, r)
    xs.reached()
    cb = CALLBACKS[op]
    desc = f"{cb}({lk}:{l.conditions_fulfilled.name}, {rk}:{r.conditions_fulfilled.name})"
    if MODE == "C06":
        if exp[0] == "invalid" and got[0] != "invalid":
            return xs.fail(f"{desc} must raise InvalidExpressionError (structural criterion) but gave {got[0]}: {got[1]!r}", lsel=lsel, rsel=rsel)
        if exp[0] == "value" and got[0] != "ok":
            return xs.fail(f"{desc} is a valid combination but raised {type(got[1]).__name__}: {got[1]}", lsel=lsel, rsel=rsel)
        if got[0] == "ok":
            res = got[1]
            # Inv is preserved: NEUTRAL <=> both operands without requirement constraint
            want_neutral = l.conditions_fulfilled is CFV.NEUTRAL and r.conditions_fulfilled is CFV.NEUTRAL
            if (res.conditions_fulfilled is CFV.NEUTRAL) != want_neutral:
                return xs.fail(f"{desc} = {res.conditions_fulfilled.name}: neutrality does not track 'no requirement constraint below'", lsel=lsel, rsel=rsel)
        return True
    if exp[0] == "invalid":
        return True
    if got[0] != "ok":
        return xs.fail(f"{desc} raised {type(got[1]).__name__}: {got[1]}", lsel=lsel, rsel=rsel)
    res = got[1]
    if MODE == "C04":
        if not isinstance(res, EvaluatedComposition):
            return xs.fail(f"{desc} returned {type(res).__name__}", lsel=lsel, rsel=rsel)
        if res.conditions_fulfilled.name != exp[1]:
            return xs.fail(f"{desc} = {res.conditions_fulfilled.name}, documented semantics: {exp[1]}", lsel=lsel, rsel=rsel)
        return True
    if MODE == "C05":
        # operand order never matters (value and validity)
        if op != 3:
            got2 = _call(op, *(mk(rsel, "l")[0], mk(lsel, "r")[0]))
            if got2[0] != "ok" or got2[1].conditions_fulfilled is not res.conditions_fulfilled:
                return xs.fail(f"{desc} = {res.conditions_fulfilled.name} but with swapped operands: {got2[0]} {getattr(got2[1], 'conditions_fulfilled', got2[1])}", lsel=lsel, rsel=rsel)
        # and-ing a hint keeps the value and the neutral/non-neutral class, never raises
        if op == 0 and (lk == "hint" or rk == "hint"):
            other = r if lk == "hint" else l
            if res.conditions_fulfilled is not other.conditions_fulfilled:
                return xs.fail(f"{desc} = {res.conditions_fulfilled.name}: and-ing a hint changed the value", lsel=lsel, rsel=rsel)
        # attaching a format constraint keeps the partner's value
        if op == 3:
            other = r if lk == "fc" else l
            want = CFV.NEUTRAL if (rk if lk == "fc" else lk) == "hint" else other.conditions_fulfilled
            if res.conditions_fulfilled is not want:
                return xs.fail(f"{desc} = {res.conditions_fulfilled.name}: attaching a format constraint changed the value", lsel=lsel, rsel=rsel)
        return True
    raise xs.HarnessError(f"unknown MODE {MODE}")


def refine(lsel: int, rsel: int, rl: bool, rr: bool) -> bool:
    """
    pre: L_LO <= lsel < L_HI and 0 <= rsel < NSEL
    post: _
    """
    xs.path_start()
    # C05: resolving UNKNOWN operands to FULFILLED/UNFULFILLED keeps validity and any definite result
    op = OP
    lsel, rsel = xs.pick(lsel, L_LO, L_HI), xs.pick(rsel, 0, NSEL)
    (l, lk), (r, rk) = mk(lsel, "l"), mk(rsel, "r")
    if l.conditions_fulfilled is not CFV.UNKNOWN and r.conditions_fulfilled is not CFV.UNKNOWN:
        return True
    exp = _expected(op, l, lk, r, rk)
    if exp is None:
        return True

    def refined(node, kind, pick):
        if node.conditions_fulfilled is not CFV.UNKNOWN:
            return node
        v = CFV.FULFILLED if pick else CFV.UNFULFILLED
        if kind == "rc":
            return RequirementConstraint(condition_key=node.condition_key, conditions_fulfilled=v)
        return EvaluatedComposition(conditions_fulfilled=v, hint=node.hint, format_constraints_expression=node.format_constraints_expression)

    l2, r2 = refined(l, lk, rl), refined(r, rk, rr)
    a, b = _call(op, l, r), _call(op, l2, r2)
    xs.reached()
    desc = f"{CALLBACKS[op]}({lk}:{l.conditions_fulfilled.name}, {rk}:{r.conditions_fulfilled.name}) vs refinement ({l2.conditions_fulfilled.name}, {r2.conditions_fulfilled.name})"
    if (a[0] == "ok") != (b[0] == "ok"):
        return xs.fail(f"{desc}: validity changed with the refinement: {a[0]} vs {b[0]}", lsel=lsel, rsel=rsel, rl=rl, rr=rr)
    if a[0] == "ok":
        va, vb = a[1].conditions_fulfilled, b[1].conditions_fulfilled
        if va is not CFV.UNKNOWN and va is not vb:
            return xs.fail(f"{desc}: definite result {va.name} changed to {vb.name}", lsel=lsel, rsel=rsel, rl=rl, rr=rr)
    return True


# =====================================================================================================================
# C07 step: the collected format-constraint expression produced by each real callback
# =====================================================================================================================
FCE_POOL_L = (None, "[901]", "[901] U [902]", "([901] O [902]) U [903]", "[901] X ([902] O [903])", "([901] O [902])", "([901] U [902]) O ([901] X [903])")
FCE_POOL_R = tuple(None if x is None else x.replace("901", "904").replace("902", "905").replace("903", "906") for x in FCE_POOL_L)
FKEYS = ("901", "902", "903", "904", "905", "906", "907", "908")
F_LO = 0
F_HI = 1


def _operands(side: str):
    rck, hk, fk = ("1", "501", "907") if side == "l" else ("2", "502", "908")
    pool = FCE_POOL_L if side == "l" else FCE_POOL_R
    out = []
    for v in VALS[:3]:
        out.append((lambda v=v: RequirementConstraint(condition_key=rck, conditions_fulfilled=v), "rc", v.name, None))
    out.append((lambda: Hint(condition_key=hk, hint="Hinweis"), "hint", "NEUTRAL", None))
    out.append((lambda: UnevaluatedFormatConstraint(condition_key=fk), "fc", "NEUTRAL", f"[{fk}]"))
    for v in VALS:
        for fce in pool:
            out.append((lambda v=v, fce=fce: EvaluatedComposition(conditions_fulfilled=v, hint=None, format_constraints_expression=fce), "comp", v.name, fce))
    return out


OPERANDS_L = _operands("l")
OPERANDS_R = _operands("r")
NOPER = len(OPERANDS_L)


def _table(expr):
    """truth table (64 rows over 901..908 -> restricted to 8 keys = 256 rows) of a format-constraint expression string"""
    from vf import env

    if expr is None:
        return None
    tree = env.real_parser("condition").parse(expr)
    foreign = [k for k in refsem.fc_keys(tree) if k not in FKEYS]
    if foreign:
        raise refsem.OutOfScope(f"foreign keys {foreign}")
    rows = []
    for bits in range(2 ** len(FKEYS)):
        sigma = {k: bool((bits >> i) & 1) for i, k in enumerate(FKEYS)}
        rows.append(refsem.fc_bool(tree, sigma))
    return rows


def _comb(op, a, b):
    if a is None:
        return b
    if b is None:
        return a
    f = (lambda x, y: x and y, lambda x, y: x or y, lambda x, y: x != y)[op]
    return [f(x, y) for x, y in zip(a, b)]


_FCE_CASES = []


def fce_cases():
    """all (op, li, ri) inside the quantifier (valid combination, then_also attaching a single format constraint)"""
    if _FCE_CASES:
        return _FCE_CASES
    for op in range(4):
        for li, (lf, lk, lv, lfce) in enumerate(OPERANDS_L):
            for ri, (rf, rk, rv, rfce) in enumerate(OPERANDS_R):
                exp = _expected(op, lf(), lk, rf(), rk)
                if exp is not None and exp[0] != "invalid":
                    _FCE_CASES.append((op, li, ri))
    return _FCE_CASES


def fce_step(idx: int) -> bool:
    """
    pre: F_LO <= idx < F_HI
    post: _
    """
    xs.path_start()
    idx = xs.pick(idx, F_LO, F_HI)
    op, li, ri = fce_cases()[idx]
    lf, lk, lv, lfce = OPERANDS_L[li]
    rf, rk, rv, rfce = OPERANDS_R[ri]
    l, r = lf(), rf()
    exp = _expected(op, l, lk, r, rk)
    if exp is None or exp[0] == "invalid":
        return True
    got = _call(op, l, r)
    xs.reached()
    with xs.nt():
        desc = f"{CALLBACKS[op]}({lk}:{lv} fce={lfce!r}, {rk}:{rv} fce={rfce!r})"
    if got[0] != "ok":
        return xs.fail(f"{desc} raised {type(got[1]).__name__}", idx=idx)
    fce = got[1].format_constraints_expression
    with xs.nt():
        verdict = None
        try:
            tl, tr = _table(lfce), _table(rfce)
            if op < 3:
                wants = [_comb(op, tl, tr)]
            else:
                (ft, ot, ok, ov) = (tl, tr, rk, rv) if lk == "fc" else (tr, tl, lk, lv)
                if ok == "hint" or ov == "FULFILLED":
                    wants = [_comb(0, ft, ot)]
                else:
                    wants = [None, ot]  # not effective: dropped entirely, or the partner's own constraints kept
            if not fce:
                if all(w is not None for w in wants):
                    verdict = "no format-constraint expression collected although the operands contribute one"
            else:
                try:
                    tg = _table(fce)
                except refsem.OutOfScope as o:
                    tg = None
                    verdict = f"collected expression {fce!r} is not a pure U/O/X expression over the operands' format-constraint keys ({o})"
                except Exception as e:  # pylint:disable=broad-except
                    tg = None
                    verdict = f"collected expression {fce!r} is not well-formed ({type(e).__name__})"
                if tg is not None and not any(w is not None and tg == w for w in wants):
                    verdict = f"collected expression {fce!r} does not mean '{'UOX'[op] if op < 3 else 'attach'}' of the operands' expressions"
        except Exception as e:  # pylint:disable=broad-except
            raise xs.HarnessError(f"oracle failed: {type(e).__name__}: {e}") from e
    if verdict:
        return xs.fail(f"{desc}: {verdict}", idx=idx)
    return True
