"""
Step lemmas (DESIGN §3.1) on the REAL RequirementConstraintTransformer callbacks.
Operands are abstract node states chosen by symbolic selectors:
   0..2  RequirementConstraint FULFILLED / UNFULFILLED / UNKNOWN
   3     Hint
   4     UnevaluatedFormatConstraint
   5..20 EvaluatedComposition(value in 4 states x hint present? x format-constraint expression present?)
Invariant Inv assumed for operands and asserted for results: value NEUTRAL <=> no requirement constraint below
(so 'has a requirement constraint' == value != NEUTRAL); RC never NEUTRAL; Hint/UFC always NEUTRAL.

Module globals per job: MODE in {"C04","C05","C06"}, OP (0 and,1 or,2 xor,3 then_also), L_LO/L_HI partition of lsel.
"""
from ahbicht.expressions import InvalidExpressionError
from ahbicht.expressions.requirement_constraint_expression_evaluation import RequirementConstraintTransformer
from ahbicht.models.condition_nodes import ConditionFulfilledValue as CFV
from ahbicht.models.condition_nodes import EvaluatedComposition, Hint, RequirementConstraint, UnevaluatedFormatConstraint

from vf import refsem, xs

MODE = "C04"
OP = 0
L_LO = 0
L_HI = 21
NSEL = 21
VALS = (CFV.FULFILLED, CFV.UNFULFILLED, CFV.UNKNOWN, CFV.NEUTRAL)
CALLBACKS = ("and_composition", "or_composition", "xor_composition", "then_also_composition")
TABLE = (refsem.t_and, refsem.t_or, refsem.t_xor)


def mk(sel: int, side: str):
    """abstract operand -> (real node, kind)"""
    rck, hk, fk = ("1", "501", "901") if side == "l" else ("2", "502", "902")
    if sel < 3:
        return RequirementConstraint(condition_key=rck, conditions_fulfilled=VALS[sel]), "rc"
    if sel == 3:
        return Hint(condition_key=hk, hint=f"Hinweis {hk}"), "hint"
    if sel == 4:
        return UnevaluatedFormatConstraint(condition_key=fk), "fc"
    s = sel - 5
    v, hint, fce = VALS[s % 4], (s // 4) % 2, (s // 8) % 2
    return (
        EvaluatedComposition(conditions_fulfilled=v, hint=(f"Hinweis {hk}" if hint else None), format_constraints_expression=(f"[{fk}] U [9{fk[1:]}]" if fce else None)),
        "comp",
    )


def _call(op: int, l, r):
    t = RequirementConstraintTransformer({})
    fn = getattr(t, CALLBACKS[op])
    try:
        return ("ok", fn(l, r))
    except InvalidExpressionError as e:
        return ("invalid", e)
    except Exception as e:  # pylint:disable=broad-except
        return ("raised", e)


def _expected(op: int, l, lk, r, rk):
    """('value', name) | ('invalid',) | None (outside the quantifier)"""
    lv, rv = l.conditions_fulfilled.name, r.conditions_fulfilled.name
    if op == 0:
        return ("value", refsem.t_and(lv, rv))
    if op in (1, 2):
        if (lv == "NEUTRAL") != (rv == "NEUTRAL"):
            return ("invalid",)
        if {lk, rk} == {"hint", "fc"}:
            return ("invalid",)
        return ("value", TABLE[op](lv, rv))
    # then_also: exactly one single format constraint, the partner is a hint or carries a requirement constraint
    if (lk == "fc") == (rk == "fc"):
        return None
    other, ok = (r, rk) if lk == "fc" else (l, lk)
    if ok == "hint":
        return ("value", "NEUTRAL")
    if other.conditions_fulfilled.name == "NEUTRAL":
        return None
    return ("value", other.conditions_fulfilled.name)


def step(lsel: int, rsel: int) -> bool:
    """
    pre: L_LO <= lsel < L_HI and 0 <= rsel < NSEL
    post: _
    """
    op = OP
    (l, lk), (r, rk) = mk(lsel, "l"), mk(rsel, "r")
    exp = _expected(op, l, lk, r, rk)
    if exp is None:
        return True
    got = _call(op, l, r)
    xs.reached()
    cb = CALLBACKS[op]
    desc = f"{cb}({lk}:{l.conditions_fulfilled.name}, {rk}:{r.conditions_fulfilled.name})"
    if MODE == "C06":
        if exp[0] == "invalid" and got[0] != "invalid":
            return xs.fail(f"{desc} must raise InvalidExpressionError (structural criterion) but gave {got[0]}: {got[1]!r}", lsel=lsel, rsel=rsel)
        if exp[0] == "value" and got[0] != "ok":
            return xs.fail(f"{desc} is a valid combination but raised {type(got[1]).__name__}: {got[1]}", lsel=lsel, rsel=rsel)
        if got[0] == "ok":
            res = got[1]
            # Inv is preserved: NEUTRAL <=> both operands without requirement constraint
            want_neutral = l.conditions_fulfilled is CFV.NEUTRAL and r.conditions_fulfilled is CFV.NEUTRAL
            if (res.conditions_fulfilled is CFV.NEUTRAL) != want_neutral:
                return xs.fail(f"{desc} = {res.conditions_fulfilled.name}: neutrality does not track 'no requirement constraint below'", lsel=lsel, rsel=rsel)
        return True
    if exp[0] == "invalid":
        return True
    if got[0] != "ok":
        return xs.fail(f"{desc} raised {type(got[1]).__name__}: {got[1]}", lsel=lsel, rsel=rsel)
    res = got[1]
    if MODE == "C04":
        if not isinstance(res, EvaluatedComposition):
            return xs.fail(f"{desc} returned {type(res).__name__}", lsel=lsel, rsel=rsel)
        if res.conditions_fulfilled.name != exp[1]:
            return xs.fail(f"{desc} = {res.conditions_fulfilled.name}, documented semantics: {exp[1]}", lsel=lsel, rsel=rsel)
        return True
    if MODE == "C05":
        # operand order never matters (value and validity)
        if op != 3:
            got2 = _call(op, *(mk(rsel, "l")[0], mk(lsel, "r")[0]))
            if got2[0] != "ok" or got2[1].conditions_fulfilled is not res.conditions_fulfilled:
                return xs.fail(f"{desc} = {res.conditions_fulfilled.name} but with swapped operands: {got2[0]} {getattr(got2[1], 'conditions_fulfilled', got2[1])}", lsel=lsel, rsel=rsel)
        # and-ing a hint keeps the value and the neutral/non-neutral class, never raises
        if op == 0 and (lk == "hint" or rk == "hint"):
            other = r if lk == "hint" else l
            if res.conditions_fulfilled is not other.conditions_fulfilled:
                return xs.fail(f"{desc} = {res.conditions_fulfilled.name}: and-ing a hint changed the value", lsel=lsel, rsel=rsel)
        # attaching a format constraint keeps the partner's value
        if op == 3:
            other = r if lk == "fc" else l
            want = CFV.NEUTRAL if (rk if lk == "fc" else lk) == "hint" else other.conditions_fulfilled
            if res.conditions_fulfilled is not want:
                return xs.fail(f"{desc} = {res.conditions_fulfilled.name}: attaching a format constraint changed the value", lsel=lsel, rsel=rsel)
        return True
    raise xs.HarnessError(f"unknown MODE {MODE}")


def refine(lsel: int, rsel: int, rl: bool, rr: bool) -> bool:
    """
    pre: L_LO <= lsel < L_HI and 0 <= rsel < NSEL
    post: _
    """
    # C05: resolving UNKNOWN operands to FULFILLED/UNFULFILLED keeps validity and any definite result
    op = OP
    (l, lk), (r, rk) = mk(lsel, "l"), mk(rsel, "r")
    if l.conditions_fulfilled is not CFV.UNKNOWN and r.conditions_fulfilled is not CFV.UNKNOWN:
        return True
    exp = _expected(op, l, lk, r, rk)
    if exp is None:
        return True

    def refined(node, kind, pick):
        if node.conditions_fulfilled is not CFV.UNKNOWN:
            return node
        v = CFV.FULFILLED if pick else CFV.UNFULFILLED
        if kind == "rc":
            return RequirementConstraint(condition_key=node.condition_key, conditions_fulfilled=v)
        return EvaluatedComposition(conditions_fulfilled=v, hint=node.hint, format_constraints_expression=node.format_constraints_expression)

    l2, r2 = refined(l, lk, rl), refined(r, rk, rr)
    a, b = _call(op, l, r), _call(op, l2, r2)
    xs.reached()
    desc = f"{CALLBACKS[op]}({lk}:{l.conditions_fulfilled.name}, {rk}:{r.conditions_fulfilled.name}) vs refinement ({l2.conditions_fulfilled.name}, {r2.conditions_fulfilled.name})"
    if (a[0] == "ok") != (b[0] == "ok"):
        return xs.fail(f"{desc}: validity changed with the refinement: {a[0]} vs {b[0]}", lsel=lsel, rsel=rsel, rl=rl, rr=rr)
    if a[0] == "ok":
        va, vb = a[1].conditions_fulfilled, b[1].conditions_fulfilled
        if va is not CFV.UNKNOWN and va is not vb:
            return xs.fail(f"{desc}: definite result {va.name} changed to {vb.name}", lsel=lsel, rsel=rsel, rl=rl, rr=rr)
    return True
