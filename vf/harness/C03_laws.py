"""XH cross-check of C03: the laws on the REAL ConditionFulfilledValue methods; operands are symbolic selectors."""
from ahbicht.models.condition_nodes import ConditionFulfilledValue as CFV

from vf import xs

D = (CFV.FULFILLED, CFV.UNFULFILLED, CFV.UNKNOWN, CFV.NEUTRAL)
OPS = (CFV.__and__, CFV.__or__, CFV.__xor__)
DEF = (CFV.FULFILLED, CFV.UNFULFILLED)


def _call(op, x, y):
    try:
        r = op(x, y)
    except Exception as e:  # pylint:disable=broad-except
        return ("raised", type(e).__name__)
    return r


def assoc(o: int, a: int, b: int, c: int) -> bool:
    """
    pre: 0 <= o < 3 and 0 <= a < 4 and 0 <= b < 4 and 0 <= c < 4
    post: _
    """
    xs.path_start()
    op, x, y, z = OPS[xs.pick(o, 0, 3)], D[xs.pick(a, 0, 4)], D[xs.pick(b, 0, 4)], D[xs.pick(c, 0, 4)]
    l, r = _call(op, _call(op, x, y), z), _call(op, x, _call(op, y, z))
    xs.reached()
    if l != r or not isinstance(l, CFV):
        return xs.fail(f"associativity: ({x} {op.__name__} {y}) {op.__name__} {z} = {l}, other grouping = {r}", o=o, a=a, b=b, c=c)
    return True


def comm(o: int, a: int, b: int) -> bool:
    """
    pre: 0 <= o < 3 and 0 <= a < 4 and 0 <= b < 4
    post: _
    """
    xs.path_start()
    op, x, y = OPS[xs.pick(o, 0, 3)], D[xs.pick(a, 0, 4)], D[xs.pick(b, 0, 4)]
    l, r = _call(op, x, y), _call(op, y, x)
    xs.reached()
    if l != r or not isinstance(l, CFV):
        return xs.fail(f"commutativity/totality: {x} {op.__name__} {y} = {l}, swapped = {r}", o=o, a=a, b=b)
    return True


def neutral_id(o: int, a: int) -> bool:
    """
    pre: 0 <= o < 3 and 0 <= a < 4
    post: _
    """
    xs.path_start()
    op, x = OPS[xs.pick(o, 0, 3)], D[xs.pick(a, 0, 4)]
    l, r = _call(op, x, CFV.NEUTRAL), _call(op, CFV.NEUTRAL, x)
    xs.reached()
    if l is not x or r is not x:
        return xs.fail(f"NEUTRAL identity: {x} {op.__name__} NEUTRAL = {l}, NEUTRAL {op.__name__} {x} = {r}", o=o, a=a)
    return True


def boolean(o: int, p: bool, q: bool) -> bool:
    """
    pre: 0 <= o < 3
    post: _
    """
    xs.path_start()
    o = xs.pick(o, 0, 3)
    op = OPS[o]
    x = CFV.FULFILLED if p else CFV.UNFULFILLED
    y = CFV.FULFILLED if q else CFV.UNFULFILLED
    got = _call(op, x, y)
    exp_b = (p and q) if o == 0 else ((p or q) if o == 1 else (p != q))
    exp = CFV.FULFILLED if exp_b else CFV.UNFULFILLED
    xs.reached()
    if got is not exp:
        return xs.fail(f"Boolean agreement: {x} {op.__name__} {y} = {got}, expected {exp}", o=o, p=p, q=q)
    return True


def closure(o: int, a: int, b: int) -> bool:
    """
    pre: 0 <= o < 3 and 0 <= a < 4 and 0 <= b < 4
    post: _
    """
    xs.path_start()
    op, x, y = OPS[xs.pick(o, 0, 3)], D[xs.pick(a, 0, 4)], D[xs.pick(b, 0, 4)]
    got = _call(op, x, y)
    xs.reached()
    if (got is CFV.NEUTRAL) != (x is CFV.NEUTRAL and y is CFV.NEUTRAL):
        return xs.fail(f"closure: {x} {op.__name__} {y} = {got}", o=o, a=a, b=b)
    return True


def sound(o: int, a: int, b: int, ra: bool, rb: bool) -> bool:
    """
    pre: 0 <= o < 3 and 0 <= a < 4 and 0 <= b < 4
    post: _
    """
    xs.path_start()
    op, x, y = OPS[xs.pick(o, 0, 3)], D[xs.pick(a, 0, 4)], D[xs.pick(b, 0, 4)]
    got = _call(op, x, y)
    x2 = (CFV.FULFILLED if ra else CFV.UNFULFILLED) if x is CFV.UNKNOWN else x
    y2 = (CFV.FULFILLED if rb else CFV.UNFULFILLED) if y is CFV.UNKNOWN else y
    ref = _call(op, x2, y2)
    xs.reached()
    if got is not CFV.UNKNOWN and got != ref:
        return xs.fail(f"UNKNOWN soundness: {x} {op.__name__} {y} = {got} but refinement ({x2},{y2}) gives {ref}", o=o, a=a, b=b, ra=ra, rb=rb)
    if got is CFV.UNKNOWN:
        reps = lambda v: DEF if v is CFV.UNKNOWN else (v,)  # noqa: E731
        vals = {_call(op, p, q) for p in reps(x) for q in reps(y)}
        if len(vals) < 2:
            return xs.fail(f"UNKNOWN tightness: {x} {op.__name__} {y} = UNKNOWN although every replacement gives {vals}", o=o, a=a, b=b, ra=ra, rb=rb)
    return True


def monotone(o: int, a: int, b: int, ra: bool, rb: bool) -> bool:
    """
    pre: 0 <= o < 3 and 0 <= a < 4 and 0 <= b < 4
    post: _
    """
    xs.path_start()
    op, x, y = OPS[xs.pick(o, 0, 3)], D[xs.pick(a, 0, 4)], D[xs.pick(b, 0, 4)]
    x2 = (CFV.FULFILLED if ra else CFV.UNFULFILLED) if x is CFV.UNKNOWN else x
    y2 = (CFV.FULFILLED if rb else CFV.UNFULFILLED) if y is CFV.UNKNOWN else y
    lo, hi = _call(op, x, y), _call(op, x2, y2)
    xs.reached()
    if not (lo == hi or lo is CFV.UNKNOWN):
        return xs.fail(f"monotonicity: {x} {op.__name__} {y} = {lo} is not below {x2} {op.__name__} {y2} = {hi}", o=o, a=a, b=b, ra=ra, rb=rb)
    return True
