"""
Native replay of a recorded counterexample (no CrossHair tracing).

  python -m vf.replay <replays/file.json>        exit 1 if the violation reproduces, 0 if not
  python -m vf.replay --payload '<json>'         (used by the driver) prints REPLAY-RESULT {...}
"""

from __future__ import annotations

import importlib
import json
import logging
import sys
import traceback


def run_payload(p: dict) -> dict:
    logging.disable(logging.CRITICAL)
    import ahbicht.content_evaluation  # noqa: F401

    from vf import xs

    kind = p.get("kind", "xh-harness")
    if kind != "xh-harness":
        mod = importlib.import_module("vf.props." + p["property"])
        return mod.replay(p)
    mod = importlib.import_module(p["module"])
    for k, v in (p.get("globals") or {}).items():
        setattr(mod, k, v)
    fn = getattr(mod, p["fn"])
    xs.FAILS.clear()
    try:
        ok = fn(**p["inputs"])
    except xs.HarnessError as e:
        return {"outcome": "harness-error", "detail": str(e)}
    except BaseException as e:  # pylint:disable=broad-except
        return {"outcome": "harness-error", "detail": f"{type(e).__name__}: {e}", "traceback": traceback.format_exc()[-2000:]}
    if ok is False or xs.FAILS:
        return {"outcome": "fail", "what": xs.FAILS[-1]["what"] if xs.FAILS else "postcondition false", "inputs": p["inputs"]}
    return {"outcome": "pass"}


def main(argv):
    if argv and argv[0] == "--payload":
        res = run_payload(json.loads(argv[1]))
        print("REPLAY-RESULT " + json.dumps(res, default=str))
        return 0
    if not argv:
        print("usage: replay <file.json>", file=sys.stderr)
        return 2
    p = json.loads(open(argv[0], encoding="utf-8").read())
    res = run_payload(p)
    print(json.dumps(res, indent=1, default=str))
    if res.get("outcome") == "fail":
        print(f"VIOLATION property={p.get('property')} replay={argv[0]}")
        return 1
    return 0 if res.get("outcome") == "pass" else 2


if __name__ == "__main__":
    sys.exit(main(sys.argv[1:]))
