"""
Reference semantics written from the property statements and the README (never by calling the code under test).
It recurses over a Lark tree as the REAL parser returned it: (data, children) with Token leaves.

  req(tree, alpha)           -> Abs(value, has_rc, kind)    or raises Invalid / OutOfScope
  fc_read(tree, alpha, sigma, drop_inner) -> Optional[bool]  the "direct reading" of C07
  fc_bool(tree, sigma)       -> bool                         Boolean value of a format-constraint expression (C08)
"""

from __future__ import annotations

from typing import Any, Dict, Optional

F, U, K, N = "FULFILLED", "UNFULFILLED", "UNKNOWN", "NEUTRAL"


class Invalid(Exception):
    """the expression is well-formed but invalid (C06)"""


class OutOfScope(Exception):
    """outside the quantifier of the properties (e.g. FC juxtaposed to FC, packages, leading zeros)"""


# documented four-valued tables (README + "NEUTRAL is identity")
def t_and(a, b):
    if b == N:
        return a
    if a == N:
        return b
    if U in (a, b):
        return U
    if K in (a, b):
        return K
    return F


def t_or(a, b):
    if b == N:
        return a
    if a == N:
        return b
    if F in (a, b):
        return F
    if K in (a, b):
        return K
    return U


def t_xor(a, b):
    if b == N:
        return a
    if a == N:
        return b
    if K in (a, b):
        return K
    return F if (a == F) != (b == F) else U


def category(key: str) -> str:
    if not key.isdigit() or (len(key) > 1 and key[0] == "0"):
        raise OutOfScope(f"key {key!r}")
    n = int(key)
    if 1 <= n <= 499 or 2000 <= n <= 2499:
        return "rc"
    if 500 <= n <= 900:
        return "hint"
    if 901 <= n <= 999:
        return "fc"
    raise OutOfScope(f"key {key!r} outside every range")


class Abs:
    __slots__ = ("value", "has_rc", "kind", "key")

    def __init__(self, value, has_rc, kind, key=None):
        self.value, self.has_rc, self.kind, self.key = value, has_rc, kind, key


def _name(x) -> str:
    return getattr(x, "name", None) or str(x)


def req(tree: Any, alpha: Dict[str, Any]) -> Abs:
    """four-valued requirement value of the tree under alpha (rc key -> state name or enum)"""
    data = getattr(tree, "data", None)
    ch = getattr(tree, "children", None)
    if data is None:
        raise OutOfScope(f"not a tree: {tree!r}")
    data = str(data)
    if data == "condition":
        key = str(ch[0].value)
        cat = category(key)
        if cat == "rc":
            if key not in alpha:
                raise OutOfScope(f"no state for {key}")
            v = _name(alpha[key])
            if v not in (F, U, K):
                raise OutOfScope(f"rc state {v}")
            return Abs(v, True, "rc", key)
        return Abs(N, False, cat, key)
    if data in ("package", "time_condition"):
        raise OutOfScope(data)
    if data == "then_also_composition":
        l, r = req(ch[0], alpha), req(ch[1], alpha)
        if l.kind == "fc" and r.kind != "fc":
            fcn, other = l, r
        elif r.kind == "fc" and l.kind != "fc":
            fcn, other = r, l
        else:
            raise OutOfScope("juxtaposition that does not attach a single format constraint key")
        if not (other.kind == "hint" or other.has_rc):
            raise OutOfScope("format constraint attached to an operand without requirement constraint that is not a hint")
        return Abs(other.value, other.has_rc, "comp")
    if data in ("and_composition", "or_composition", "xor_composition"):
        l, r = req(ch[0], alpha), req(ch[1], alpha)
        if data == "and_composition":
            return Abs(t_and(l.value, r.value), l.has_rc or r.has_rc, "comp")
        # C06: invalid iff an only-NEUTRAL operand meets an operand carrying an RC, or single hint meets single fc
        if l.has_rc != r.has_rc:
            raise Invalid("neutral operand combined with a requirement-constrained operand in O/X")
        if {l.kind, r.kind} == {"hint", "fc"}:
            raise Invalid("single hint combined with single format constraint in O/X")
        f = t_or if data == "or_composition" else t_xor
        return Abs(f(l.value, r.value), l.has_rc or r.has_rc, "comp")
    raise OutOfScope(f"node {data}")


def outcome(value: str):
    """documented mapping to (fulfilled, is_conditional)"""
    return {F: (True, True), N: (True, False), U: (False, True), K: (None, None)}[value]


def fc_read(tree: Any, alpha: Dict[str, Any], sigma: Dict[str, Any], drop_inner: bool) -> Optional[Any]:
    """direct reading of the format constraints of a (valid, in-scope) expression; None = contributes nothing.
    drop_inner selects between the two admissible readings when an outer attachment is not effective."""
    data = str(tree.data)
    ch = tree.children
    if data == "condition":
        key = str(ch[0].value)
        return sigma[key] if category(key) == "fc" else None
    if data == "then_also_composition":
        l, r = req(ch[0], alpha), req(ch[1], alpha)
        if l.kind == "fc" and r.kind != "fc":
            fct, ot, other = ch[0], ch[1], r
        else:
            fct, ot, other = ch[1], ch[0], l
        fv = sigma[str(fct.children[0].value)]
        if other.kind == "hint" or other.value == F:
            inner = fc_read(ot, alpha, sigma, drop_inner)
            return fv if inner is None else _band(fv, inner)
        return None if drop_inner else fc_read(ot, alpha, sigma, drop_inner)
    l, r = fc_read(ch[0], alpha, sigma, drop_inner), fc_read(ch[1], alpha, sigma, drop_inner)
    if l is None:
        return r
    if r is None:
        return l
    if data == "and_composition":
        return _band(l, r)
    if data == "or_composition":
        return _bor(l, r)
    if data == "xor_composition":
        return _bxor(l, r)
    raise OutOfScope(data)


def _band(a, b):
    return a and b


def _bor(a, b):
    return a or b


def _bxor(a, b):
    return a != b


def fc_bool(tree: Any, sigma: Dict[str, Any]) -> Any:
    """Boolean value of a format-constraint expression tree (only keys, U/O/X, brackets)"""
    data = str(tree.data)
    ch = tree.children
    if data == "condition":
        return sigma[str(ch[0].value)]
    if data == "and_composition":
        return _band(fc_bool(ch[0], sigma), fc_bool(ch[1], sigma))
    if data == "or_composition":
        return _bor(fc_bool(ch[0], sigma), fc_bool(ch[1], sigma))
    if data == "xor_composition":
        return _bxor(fc_bool(ch[0], sigma), fc_bool(ch[1], sigma))
    raise OutOfScope(f"{data} in a format-constraint expression")


def fc_keys(tree: Any):
    return [str(t.value) for t in tree.scan_values(lambda v: hasattr(v, "type"))]
