"""
PZ — a small source-to-SMT translator for loop-free Python kernels of ahbicht.

The function source is read with inspect.getsource from the imported (current) ahbicht module on every run,
parsed with `ast` and executed by a tiny symbolic interpreter whose values are z3 terms.  Branching on a symbolic
condition asks z3 for the feasibility of both sides and explores them depth first (re-execution with a decision
prefix), so the result of `explore` is the complete list of feasible paths

        [(path_condition, ("return", value) | ("raise", exception_class_name))]

from which callers build one z3 term per function (an If-chain) and discharge lemmas in single queries.

Supported subset (anything else raises Unsupported -> the caller falls back to the CrossHair harness):
  statements   : docstring/Expr, If/elif/else, Return, Raise, Assign/AnnAssign to plain names, Pass
  expressions  : Name, Constant, Attribute, Compare (==, !=, is, is not, in, not in, <, <=, >, >=, chained),
                 BoolOp, UnaryOp(not / -), IfExp, Tuple/List, JoinedStr (opaque), Call, BinOp on ints, Subscript on tuples
  calls        : int(), str(), isinstance(), bool(); functions defined in ahbicht.* are inlined; everything
                 registered in `intrinsics`; methods of symbolic objects (they implement `pz_call`/`pz_getattr`);
                 constructors of classes -> Record
"""

from __future__ import annotations

import ast
import inspect
import textwrap
import time
from typing import Any, Callable, Dict, List, Optional, Sequence, Tuple

import z3


class Unsupported(Exception):
    """the source uses a construct outside PZ's subset"""


class _Return(Exception):
    def __init__(self, value):
        self.value = value


class _Raise(Exception):
    def __init__(self, name, detail=None, cls=None):
        self.name = name
        self.detail = detail
        self.cls = cls


class _Abandon(Exception):
    """path infeasible"""


# --------------------------------------------------------------------------- symbolic values
class FD:
    """A value from a finite domain of concrete Python objects, chosen by a z3 Int index."""

    def __init__(self, domain: Sequence[Any], term: z3.ArithRef):
        self.domain = list(domain)
        self.term = term

    def constraint(self) -> z3.BoolRef:
        return z3.And(self.term >= 0, self.term < len(self.domain))

    def eq(self, other: Any):
        if isinstance(other, FD):
            clauses = []
            for i, a in enumerate(self.domain):
                for j, b in enumerate(other.domain):
                    if _concrete_eq(a, b):
                        clauses.append(z3.And(self.term == i, other.term == j))
            return z3.Or(*clauses) if clauses else False
        hits = [i for i, a in enumerate(self.domain) if _concrete_eq(a, other)]
        if not hits:
            return False
        return z3.Or(*[self.term == i for i in hits])

    def identical(self, other: Any):
        if isinstance(other, FD):
            clauses = []
            for i, a in enumerate(self.domain):
                for j, b in enumerate(other.domain):
                    if a is b:
                        clauses.append(z3.And(self.term == i, other.term == j))
            return z3.Or(*clauses) if clauses else False
        hits = [i for i, a in enumerate(self.domain) if a is other]
        if not hits:
            return False
        return z3.Or(*[self.term == i for i in hits])

    def isinstance_(self, cls) -> Any:
        hits = [i for i, a in enumerate(self.domain) if isinstance(a, cls)]
        if len(hits) == len(self.domain):
            return True
        if not hits:
            return False
        return z3.Or(*[self.term == i for i in hits])

    def truthy(self):
        hits = [i for i, a in enumerate(self.domain) if a]
        if len(hits) == len(self.domain):
            return True
        if not hits:
            return False
        return z3.Or(*[self.term == i for i in hits])

    def __repr__(self):
        return f"FD({self.term})"


def _concrete_eq(a, b) -> bool:
    try:
        return bool(a == b)
    except Exception:  # pylint:disable=broad-except
        return False


class Record:
    """an object built by calling a class: Record(cls, fields) — fields may be symbolic"""

    def __init__(self, cls, fields: Dict[str, Any]):
        self.cls = cls
        self.fields = fields

    def pz_getattr(self, name):
        if name in self.fields:
            return self.fields[name]
        raise Unsupported(f"attribute {name} of Record({self.cls})")

    def __repr__(self):
        return f"Record({getattr(self.cls, '__name__', self.cls)}, {self.fields})"


class Opaque:
    """an opaque, non-None, truthy value (f-strings, messages)"""

    def __init__(self, tag="str"):
        self.tag = tag

    def __repr__(self):
        return f"<opaque {self.tag}>"


class SymStrKey:
    """a condition-key string abstracted to (integer value n, ends-with-P flag).
    Precondition of the abstraction: the string matches [0-9]+P? (what the lexer hands over)."""

    def __init__(self, n: z3.ArithRef, ends_p: z3.BoolRef):
        self.n, self.ends_p = n, ends_p

    def pz_call(self, interp, name, args, kwargs):
        if name == "endswith" and len(args) == 1 and args[0] == "P":
            return self.ends_p
        raise Unsupported(f"str method {name}{args}")

    def pz_int(self, interp):
        # int("12P") raises ValueError
        if interp.decide(self.ends_p):
            raise _Raise("ValueError")
        return self.n


# --------------------------------------------------------------------------- interpreter
class Interp:
    def __init__(self, intrinsics: Optional[Dict[Any, Callable]] = None, inline_prefix: str = "ahbicht", timeout_ms=20000):
        self.intrinsics = intrinsics or {}
        self.inline_prefix = inline_prefix
        self.solver = z3.Solver()
        self.solver.set("timeout", timeout_ms)
        self.base: List[z3.BoolRef] = []
        self._prefix: List[bool] = []
        self._pos = 0
        self._pc: List[z3.BoolRef] = []
        self._work: List[List[bool]] = []
        self.queries = 0
        self.solver_time = 0.0
        self.functions_seen: Dict[str, Any] = {}

    # ---- exploration -----------------------------------------------------
    def _check(self, *extra) -> z3.CheckSatResult:
        t = time.time()
        self.solver.push()
        for c in self.base + self._pc + list(extra):
            self.solver.add(c)
        r = self.solver.check()
        self.solver.pop()
        self.queries += 1
        self.solver_time += time.time() - t
        return r

    def decide(self, cond) -> bool:
        if isinstance(cond, bool):
            return cond
        if isinstance(cond, FD):
            cond = cond.truthy()
            if isinstance(cond, bool):
                return cond
        if not isinstance(cond, z3.BoolRef):
            raise Unsupported(f"cannot branch on {cond!r}")
        cond = z3.simplify(cond)
        if z3.is_true(cond):
            return True
        if z3.is_false(cond):
            return False
        if self._pos < len(self._prefix):
            choice = self._prefix[self._pos]
        else:
            can_t = self._check(cond)
            can_f = self._check(z3.Not(cond))
            if str(can_t) == "unknown" or str(can_f) == "unknown":
                raise Unsupported("solver returned unknown on a branch feasibility query")
            if str(can_t) == "sat" and str(can_f) == "sat":
                self._work.append(self._prefix[: self._pos] + [False])
                choice = True
            elif str(can_t) == "sat":
                choice = True
            elif str(can_f) == "sat":
                choice = False
            else:
                raise _Abandon()
            self._prefix = self._prefix[: self._pos] + [choice]
        self._pos += 1
        self._pc.append(cond if choice else z3.Not(cond))
        return choice

    def explore(self, thunk: Callable[[], Any]) -> List[Tuple[z3.BoolRef, Tuple[str, Any]]]:
        self._work = [[]]
        paths = []
        while self._work:
            self._prefix = self._work.pop()
            self._pos = 0
            self._pc = []
            try:
                val = thunk()
                outcome = ("return", val)
            except _Raise as r:
                outcome = ("raise", r.name)
            except _Abandon:
                continue
            pc = z3.And(*self._pc) if self._pc else z3.BoolVal(True)
            paths.append((pc, outcome))
            if len(paths) > 5000:
                raise Unsupported("more than 5000 paths")
        return paths

    # ---- calling a python function symbolically ---------------------------
    def call_function(self, fn, args: Sequence[Any], kwargs: Dict[str, Any]):
        if fn in self.intrinsics:
            return self.intrinsics[fn](self, *args, **kwargs)
        target = inspect.unwrap(fn) if callable(fn) else fn
        if inspect.isfunction(target) and (target.__module__ or "").startswith(self.inline_prefix):
            return self._inline(target, args, kwargs)
        if inspect.ismethod(target) and (target.__func__.__module__ or "").startswith(self.inline_prefix):
            return self._inline(target.__func__, [target.__self__, *args], kwargs)
        if inspect.isclass(fn):
            if fn is int:
                (a,) = args
                if hasattr(a, "pz_int"):
                    return a.pz_int(self)
                if isinstance(a, (int, str)):
                    return int(a)
                if isinstance(a, z3.ArithRef):
                    return a
                raise Unsupported(f"int({a!r})")
            if fn is str:
                (a,) = args
                if isinstance(a, (FD, z3.ExprRef, Record, Opaque)) or hasattr(a, "pz_call"):
                    return Opaque("str()")
                return str(a)
            if fn is bool:
                (a,) = args
                return self.truth(a)
            import enum as _enum

            if issubclass(fn, _enum.Enum) and len(args) == 1 and not kwargs and isinstance(args[0], FD):
                src = args[0]
                members, failing = [], []
                for i, m in enumerate(src.domain):
                    try:
                        members.append(fn(m))
                    except ValueError:
                        members.append(None)
                        failing.append(i)
                if failing and self.decide(z3.Or(*[src.term == i for i in failing])):
                    raise _Raise("ValueError")
                return FD(members, src.term)
            if _all_concrete(args) and _all_concrete(kwargs.values()) and not args and not kwargs:
                return fn()
            if args:
                # positional constructor args: keep by position
                fields = {f"_{i}": a for i, a in enumerate(args)}
                fields.update(kwargs)
                try:
                    names = [p for p in inspect.signature(fn).parameters]
                    fields = {names[i]: a for i, a in enumerate(args)}
                    fields.update(kwargs)
                except (TypeError, ValueError, IndexError):
                    pass
                return Record(fn, fields)
            return Record(fn, dict(kwargs))
        if fn is isinstance:
            obj, cls = args
            if isinstance(obj, FD):
                return obj.isinstance_(cls)
            if isinstance(obj, Record):
                classes = cls if isinstance(cls, tuple) else (cls,)
                return any(inspect.isclass(obj.cls) and issubclass(obj.cls, c) for c in classes)
            if isinstance(obj, (z3.ExprRef, Opaque)) or hasattr(obj, "pz_call"):
                raise Unsupported(f"isinstance({obj!r}, {cls})")
            return isinstance(obj, cls)
        if fn is divmod and len(args) == 2:
            a, b = args
            if isinstance(a, (int, z3.ArithRef)) and isinstance(b, int) and b > 0:
                return (a / b, a % b) if isinstance(a, z3.ArithRef) else divmod(a, b)
            raise Unsupported("divmod on these operands")
        owner = getattr(fn, "__self__", None)
        if isinstance(owner, (list, dict, set)) and getattr(fn, "__name__", "") in ("append", "extend", "get", "keys", "values", "items", "add"):
            return fn(*args, **kwargs)
        if _all_concrete(args) and _all_concrete(kwargs.values()) and callable(fn):
            mod = getattr(fn, "__module__", "") or ""
            if mod in ("builtins",) or fn in (len, min, max, abs):
                return fn(*args, **kwargs)
        raise Unsupported(f"call to {fn!r} with {args!r} {kwargs!r}")

    def _inline(self, fn, args, kwargs):
        src = textwrap.dedent(inspect.getsource(fn))
        tree = ast.parse(src)
        fdef = tree.body[0]
        if isinstance(fdef, ast.AsyncFunctionDef):
            raise Unsupported("async function")
        if not isinstance(fdef, ast.FunctionDef):
            raise Unsupported("not a function definition")
        self.functions_seen[f"{fn.__module__}.{fn.__qualname__}"] = fn
        sig = inspect.signature(fn)
        bound = sig.bind(*args, **kwargs)
        bound.apply_defaults()
        env = dict(bound.arguments)
        locals_assigned = {n.id for n in ast.walk(fdef) if isinstance(n, ast.Name) and isinstance(n.ctx, ast.Store)}
        frame = _Frame(fn, env, locals_assigned)
        try:
            self._block(fdef.body, frame)
        except _Return as r:
            return r.value
        return None

    # ---- statements --------------------------------------------------------
    def _block(self, stmts, fr):
        for s in stmts:
            self._stmt(s, fr)

    def _stmt(self, s, fr):
        if isinstance(s, ast.Expr):
            if isinstance(s.value, ast.Constant):
                return
            self._expr(s.value, fr)
            return
        if isinstance(s, ast.Pass):
            return
        if isinstance(s, ast.Return):
            raise _Return(self._expr(s.value, fr) if s.value is not None else None)
        if isinstance(s, ast.Raise):
            if s.exc is None:
                raise Unsupported("bare raise")
            exc = s.exc
            if isinstance(exc, ast.Call):
                cls = self._expr(exc.func, fr)
            else:
                cls = self._expr(exc, fr)
            if isinstance(cls, Opaque) and cls.tag == "exception":
                raise Unsupported("re-raise of a caught exception object")
            if not (inspect.isclass(cls) and issubclass(cls, BaseException)):
                raise Unsupported(f"raise of {cls!r}")
            raise _Raise(cls.__name__, cls=cls)
        if isinstance(s, ast.If):
            if self.decide(self.truth(self._expr(s.test, fr))):
                self._block(s.body, fr)
            else:
                self._block(s.orelse, fr)
            return
        if isinstance(s, ast.Assign):
            val = self._expr(s.value, fr)
            for t in s.targets:
                self._assign(t, val, fr)
            return
        if isinstance(s, ast.AnnAssign):
            if s.value is not None:
                self._assign(s.target, self._expr(s.value, fr), fr)
            return
        if isinstance(s, ast.Assert):
            return
        if isinstance(s, ast.Try):
            if s.finalbody:
                raise Unsupported("try/finally")
            try:
                self._block(s.body, fr)
            except _Raise as r:
                import builtins

                cls = r.cls or getattr(builtins, r.name, None)
                for h in s.handlers:
                    if h.type is None:
                        match = True
                    else:
                        types = self._expr(h.type, fr)
                        match = cls is not None and inspect.isclass(cls) and issubclass(cls, types)
                    if match:
                        if h.name:
                            fr.env[h.name] = Opaque("exception")
                        self._block(h.body, fr)
                        return
                raise
            self._block(s.orelse, fr)
            return
        if isinstance(s, ast.For):
            it = self._expr(s.iter, fr)
            if not isinstance(it, (list, tuple)):
                raise Unsupported("for over a non-concrete iterable")
            if s.orelse:
                raise Unsupported("for/else")
            for item in list(it):
                self._assign(s.target, item, fr)
                self._block(s.body, fr)
            return
        raise Unsupported(f"statement {type(s).__name__} at line {getattr(s, 'lineno', '?')} of {fr.fn.__qualname__}")

    def _assign(self, target, val, fr):
        if isinstance(target, ast.Name):
            fr.env[target.id] = val
            return
        if isinstance(target, ast.Tuple) and isinstance(val, (tuple, list)) and len(val) == len(target.elts):
            for t, v in zip(target.elts, val):
                self._assign(t, v, fr)
            return
        raise Unsupported(f"assignment target {ast.dump(target)}")

    def _exc_name(self, node, fr):
        obj = self._expr(node, fr)
        if inspect.isclass(obj) and issubclass(obj, BaseException):
            return obj.__name__
        raise Unsupported(f"raise of {obj!r}")

    # ---- expressions -------------------------------------------------------
    def truth(self, v):
        if isinstance(v, (bool, z3.BoolRef)):
            return v
        if isinstance(v, FD):
            return v.truthy()
        if isinstance(v, (Record, Opaque)):
            return True
        if isinstance(v, z3.ArithRef):
            return v != 0
        if hasattr(v, "pz_call"):
            raise Unsupported(f"truth of {v!r}")
        return bool(v)

    def _expr(self, n, fr):
        if isinstance(n, ast.Constant):
            return n.value
        if isinstance(n, ast.Name):
            if n.id in fr.env:
                return fr.env[n.id]
            if n.id in fr.locals_assigned:
                raise _Raise("UnboundLocalError")
            g = fr.fn.__globals__
            if n.id in g:
                return g[n.id]
            import builtins

            if hasattr(builtins, n.id):
                return getattr(builtins, n.id)
            raise _Raise("NameError")
        if isinstance(n, ast.Attribute):
            obj = self._expr(n.value, fr)
            return self._getattr(obj, n.attr)
        if isinstance(n, ast.Tuple):
            return tuple(self._expr(e, fr) for e in n.elts)
        if isinstance(n, ast.List):
            return [self._expr(e, fr) for e in n.elts]
        if isinstance(n, ast.JoinedStr):
            for v in n.values:
                if isinstance(v, ast.FormattedValue):
                    self._expr(v.value, fr)  # evaluate for its exceptions
            return Opaque("fstring")
        if isinstance(n, ast.UnaryOp):
            v = self._expr(n.operand, fr)
            if isinstance(n.op, ast.Not):
                t = self.truth(v)
                return (not t) if isinstance(t, bool) else z3.Not(t)
            if isinstance(n.op, ast.USub):
                return -v
            if isinstance(n.op, ast.Invert) and isinstance(v, FD):
                return self.call_function(_fd_class_attr(v, "__invert__"), [v], {})
            raise Unsupported("unary op")
        if isinstance(n, ast.BoolOp):
            # python semantics: short circuit, value of the deciding operand; we only need truth values
            if isinstance(n.op, ast.And):
                last = True
                for e in n.values:
                    last = self._expr(e, fr)
                    if not self.decide(self.truth(last)):
                        return last if isinstance(last, (bool, type(None))) else False
                return last if not isinstance(last, (z3.BoolRef, FD)) else True
            last = False
            for e in n.values:
                last = self._expr(e, fr)
                if self.decide(self.truth(last)):
                    return last if not isinstance(last, (z3.BoolRef, FD)) else True
            return last if isinstance(last, (bool, type(None))) else False
        if isinstance(n, ast.IfExp):
            if self.decide(self.truth(self._expr(n.test, fr))):
                return self._expr(n.body, fr)
            return self._expr(n.orelse, fr)
        if isinstance(n, ast.Compare):
            left = self._expr(n.left, fr)
            result = True
            for op, rn in zip(n.ops, n.comparators):
                right = self._expr(rn, fr)
                c = self._compare(op, left, right)
                if not self.decide(c):
                    return False
                left = right
            return result
        if isinstance(n, ast.BinOp):
            a, b = self._expr(n.left, fr), self._expr(n.right, fr)
            dunder = {ast.BitOr: "__or__", ast.BitAnd: "__and__", ast.BitXor: "__xor__"}.get(type(n.op))
            if dunder and (isinstance(a, FD) or isinstance(b, FD)):
                owner = a if isinstance(a, FD) else b
                if not isinstance(a, FD):
                    cls = type(a)
                    meth = getattr(cls, dunder, None)
                    if meth is None or not inspect.isfunction(meth):
                        raise Unsupported(f"{dunder} of {cls}")
                else:
                    meth = _fd_class_attr(owner, dunder)
                return self.call_function(meth, [a, b], {})
            if isinstance(a, (Opaque,)) or isinstance(b, (Opaque,)):
                return Opaque("binop")
            if isinstance(n.op, ast.Add):
                return a + b
            if isinstance(n.op, ast.Sub):
                return a - b
            if isinstance(n.op, ast.Mult):
                return a * b
            raise Unsupported("binop")
        if isinstance(n, ast.Subscript):
            obj = self._expr(n.value, fr)
            idx = self._expr(n.slice, fr)
            if isinstance(obj, (tuple, list, dict, str)) and isinstance(idx, (int, str)):
                return obj[idx]
            if isinstance(obj, dict) and (isinstance(idx, FD) or (isinstance(idx, tuple) and any(isinstance(x, FD) for x in idx))):
                return self._dict_lookup(obj, idx)
            if isinstance(obj, dict) and _all_concrete([idx] if not isinstance(idx, tuple) else idx):
                try:
                    return obj[idx]
                except KeyError:
                    raise _Raise("KeyError")
            raise Unsupported("subscript")
        if isinstance(n, ast.Call):
            kwargs = {}
            for kw in n.keywords:
                if kw.arg is None:
                    raise Unsupported("**kwargs")
                kwargs[kw.arg] = self._expr(kw.value, fr)
            args = [self._expr(a, fr) for a in n.args]
            if isinstance(n.func, ast.Attribute):
                obj = self._expr(n.func.value, fr)
                if hasattr(obj, "pz_call"):
                    return obj.pz_call(self, n.func.attr, args, kwargs)
                if isinstance(obj, FD):
                    meth = _fd_class_attr(obj, n.func.attr)
                    return self.call_function(meth, [obj, *args], kwargs)
                fn = self._getattr(obj, n.func.attr)
            else:
                fn = self._expr(n.func, fr)
            return self.call_function(fn, args, kwargs)
        raise Unsupported(f"expression {type(n).__name__} in {fr.fn.__qualname__}")

    def _dict_lookup(self, table: dict, key):
        """table[key] where key is an FD or a tuple containing FDs: finite case split, result is an FD over the values"""
        import itertools

        parts = list(key) if isinstance(key, tuple) else [key]
        spaces = [list(enumerate(p.domain)) if isinstance(p, FD) else [(None, p)] for p in parts]
        values, conds, missing = [], [], []
        for combo in itertools.product(*spaces):
            k = tuple(v for _, v in combo)
            k = k if isinstance(key, tuple) else k[0]
            cond = [p.term == i for p, (i, _) in zip(parts, combo) if isinstance(p, FD)]
            c = z3.And(*cond) if cond else z3.BoolVal(True)
            try:
                hit = k in table
            except TypeError as e:
                raise Unsupported(f"unhashable key {k!r}") from e
            if not hit:
                missing.append(c)
                continue
            values.append(table[k])
            conds.append(c)
        if missing and self.decide(z3.Or(*missing)):
            raise _Raise("KeyError")
        if not values:
            raise _Raise("KeyError")
        if any(isinstance(v, (FD, z3.ExprRef)) for v in values):
            raise Unsupported("dict with symbolic values")
        term = z3.IntVal(len(values) - 1)
        for i in reversed(range(len(values) - 1)):
            term = z3.If(conds[i], z3.IntVal(i), term)
        return FD(values, term)

    def _getattr(self, obj, name):
        if hasattr(obj, "pz_getattr"):
            return obj.pz_getattr(name)
        if isinstance(obj, FD):
            try:
                vals = [getattr(m, name) for m in obj.domain]
            except AttributeError as e:
                raise Unsupported(f"attribute {name} of symbolic {obj!r}") from e
            if any(callable(v) for v in vals):
                raise Unsupported(f"method attribute {name} of symbolic {obj!r} used as a value")
            return FD(vals, obj.term)
        if isinstance(obj, (z3.ExprRef, Opaque)):
            raise Unsupported(f"attribute {name} of symbolic {obj!r}")
        return getattr(obj, name)

    def _compare(self, op, a, b):
        if isinstance(op, (ast.Eq, ast.NotEq)):
            c = sym_eq(a, b)
            return _neg(c) if isinstance(op, ast.NotEq) else c
        if isinstance(op, (ast.Is, ast.IsNot)):
            c = sym_is(a, b)
            return _neg(c) if isinstance(op, ast.IsNot) else c
        if isinstance(op, (ast.In, ast.NotIn)):
            if not isinstance(b, (tuple, list)):
                raise Unsupported("'in' on a non-tuple")
            parts = [sym_eq(a, x) for x in b]
            if any(p is True for p in parts):
                c = True
            else:
                sym = [p for p in parts if not isinstance(p, bool)]
                c = z3.Or(*sym) if sym else False
            return _neg(c) if isinstance(op, ast.NotIn) else c
        if isinstance(a, (int, z3.ArithRef)) and isinstance(b, (int, z3.ArithRef)) and not isinstance(a, bool):
            if isinstance(op, ast.Lt):
                return a < b
            if isinstance(op, ast.LtE):
                return a <= b
            if isinstance(op, ast.Gt):
                return a > b
            if isinstance(op, ast.GtE):
                return a >= b
        raise Unsupported(f"comparison {type(op).__name__} of {a!r}, {b!r}")


def _fd_class_attr(fd: "FD", name: str):
    classes = {type(m) for m in fd.domain}
    if len(classes) != 1:
        raise Unsupported(f"attribute {name} of a mixed-class finite domain")
    (cls,) = classes
    meth = getattr(cls, name, None)
    if meth is None or not inspect.isfunction(meth):
        raise Unsupported(f"attribute {name} of {cls}")
    return meth


class _Frame:
    def __init__(self, fn, env, locals_assigned):
        self.fn, self.env, self.locals_assigned = fn, env, locals_assigned


def _neg(c):
    return (not c) if isinstance(c, bool) else z3.Not(c)


def _all_concrete(vals) -> bool:
    return not any(isinstance(v, (FD, z3.ExprRef, Record, Opaque)) or hasattr(v, "pz_call") for v in vals)


def sym_eq(a, b):
    if hasattr(a, "pz_eq"):
        return a.pz_eq(b)
    if hasattr(b, "pz_eq"):
        return b.pz_eq(a)
    if isinstance(a, FD):
        return a.eq(b)
    if isinstance(b, FD):
        return b.eq(a)
    if isinstance(a, z3.ExprRef) or isinstance(b, z3.ExprRef):
        if isinstance(a, (bool, int, z3.ExprRef)) and isinstance(b, (bool, int, z3.ExprRef)):
            return a == b
        return False
    if isinstance(a, (Record, Opaque)) or isinstance(b, (Record, Opaque)):
        if a is None or b is None:
            return False
        raise Unsupported(f"== on {a!r}, {b!r}")
    return _concrete_eq(a, b)


def sym_is(a, b):
    if isinstance(a, FD):
        return a.identical(b)
    if isinstance(b, FD):
        return b.identical(a)
    if isinstance(a, (Record, Opaque)) or isinstance(b, (Record, Opaque)) or hasattr(a, "pz_call") or hasattr(b, "pz_call"):
        if a is None or b is None:
            return False
        return a is b
    if isinstance(a, z3.BoolRef) or isinstance(b, z3.BoolRef):
        if a is None or b is None:
            return False
        if isinstance(a, (bool, z3.BoolRef)) and isinstance(b, (bool, z3.BoolRef)):
            return a == b
        return False
    if isinstance(a, z3.ExprRef) or isinstance(b, z3.ExprRef):
        if a is None or b is None:
            return False
        raise Unsupported("'is' on symbolic ints")
    return a is b


def fd_index_term(fd: "FD", canonical: Sequence[Any], missing: int = -1) -> z3.ArithRef:
    """z3 Int: index (in `canonical`) of the member an FD value denotes"""
    def idx(m):
        for k, c in enumerate(canonical):
            if m is c:
                return k
        return missing

    if len(fd.domain) == len(canonical) and all(a is b for a, b in zip(fd.domain, canonical)):
        return fd.term
    term = z3.IntVal(idx(fd.domain[-1])) if fd.domain else z3.IntVal(missing)
    for i in reversed(range(len(fd.domain) - 1)):
        term = z3.If(fd.term == i, z3.IntVal(idx(fd.domain[i])), term)
    return term


# --------------------------------------------------------------------------- helpers for callers
def outcome_term(paths, encode: Callable[[Tuple[str, Any]], z3.ExprRef], default: z3.ExprRef) -> z3.ExprRef:
    """If-chain over the explored paths (they are mutually exclusive and, if the function is total, exhaustive)."""
    term = default
    for pc, outcome in reversed(paths):
        term = z3.If(pc, encode(outcome), term)
    return term


def check(solver_assertions: Sequence[z3.BoolRef], timeout_ms: int = 60000, name: str = "lemma", cross: bool = True) -> Tuple[str, Optional[z3.ModelRef], float]:
    s = z3.Solver()
    s.set("timeout", timeout_ms)
    for a in solver_assertions:
        s.add(a)
    t = time.time()
    r = s.check()
    dt = time.time() - t
    if cross:
        from vf import crosscheck

        crosscheck.compare(name, solver_assertions, str(r))
    return str(r), (s.model() if str(r) == "sat" else None), dt
