"""
Selector-built condition expressions (DESIGN §3.1 "bounded glue").

An expression is assembled from
  * a skeleton (binary tree shape) with L leaves,
  * one operator per inner node (U / O / X), spelled per a global spelling selector,
  * one leaf kind per leaf: rc | hint | rc+fc ("[k][9xx]") | hint+fc | fc+rc ("[9xx][k]") | fc (bare format constraint),
  * one attach flag per inner node: "(…)[9xx]" — a format constraint attached to the bracketed composition,
  * bracket style: full brackets round every inner node, or none (then the real parser's precedence decides — the
    reference semantics always folds the tree the real parser returned, so either is fine).
All selectors are plain ints so that CrossHair can treat them symbolically and they can be replayed from JSON.
"""

from __future__ import annotations

from typing import Dict, List, Tuple

# skeletons: nested tuples; leaves are None.  index by number of leaves
SKELETONS: Dict[int, List] = {
    1: [None],
    2: [(None, None)],
    3: [((None, None), None), (None, (None, None))],
    4: [(((None, None), None), None), ((None, (None, None)), None), ((None, None), (None, None)), (None, ((None, None), None)), (None, (None, (None, None)))],
}
OPS = ("U", "O", "X")
SPELL = ({"U": "U", "O": "O", "X": "X"}, {"U": "u", "O": "o", "X": "x"}, {"U": "∧", "O": "∨", "X": "⊻"}, {"U": " U ", "O": "\tO ", "X": " X\n"})
LEAF_KINDS = ("rc", "hint", "rc+fc", "hint+fc", "fc+rc", "fc")
RC_KEYS = ("1", "2", "499", "4", "5")  # boundary keys of each category on purpose (1..499 requirement, 500..900 hint, 901..999 format)
HINT_KEYS = ("900", "500", "503", "504", "505")
FC_KEYS = ("901", "999", "903", "904", "905", "906", "907", "908", "909")


def inner_count(skel) -> int:
    if skel is None:
        return 0
    return 1 + inner_count(skel[0]) + inner_count(skel[1])


def digits(value: int, bases: List[int]) -> List[int]:
    """mixed-radix decoding (little endian)"""
    out = []
    for b in bases:
        out.append(value % b)
        value //= b
    return out


class Built:
    def __init__(self):
        self.text = ""
        self.rc: List[str] = []
        self.hints: List[str] = []
        self.fc: List[str] = []


def build(nleaves: int, skel_i: int, ops: List[int], kinds: List[int], attach: List[int], spelling: int, brackets: int, dup_rc: int = 0) -> Built:
    """render; ops/attach are per inner node in pre-order, kinds per leaf left to right.
    dup_rc=1: the last rc leaf re-uses the first rc key and the last fc key re-uses the first fc key (duplicate keys in one expression)."""
    skel = SKELETONS[nleaves][skel_i]
    b = Built()
    sp = SPELL[spelling]
    st = {"inner": 0, "leaf": 0}

    def fresh(lst, pool):
        k = pool[len(lst)]
        lst.append(k)
        return k

    def leaf() -> str:
        kind = LEAF_KINDS[kinds[st["leaf"]]]
        st["leaf"] += 1
        if kind == "rc":
            return f"[{fresh(b.rc, RC_KEYS)}]"
        if kind == "hint":
            return f"[{fresh(b.hints, HINT_KEYS)}]"
        if kind == "fc":
            return f"[{fresh(b.fc, FC_KEYS)}]"
        if kind == "rc+fc":
            return f"[{fresh(b.rc, RC_KEYS)}][{fresh(b.fc, FC_KEYS)}]"
        if kind == "hint+fc":
            return f"[{fresh(b.hints, HINT_KEYS)}][{fresh(b.fc, FC_KEYS)}]"
        if kind == "fc+rc":
            fck = fresh(b.fc, FC_KEYS)
            return f"[{fck}][{fresh(b.rc, RC_KEYS)}]"
        raise ValueError(kind)

    def rec(s, top: bool) -> str:
        if s is None:
            return leaf()
        i = st["inner"]
        st["inner"] += 1
        op = sp[OPS[ops[i]]]
        l = rec(s[0], False)
        r = rec(s[1], False)
        txt = f"{l}{op}{r}"
        if attach[i]:
            return f"({txt})[{fresh(b.fc, FC_KEYS)}]"
        if brackets and not top:
            return f"({txt})"
        return txt

    b.text = rec(skel, True)
    if dup_rc and len(b.rc) >= 2:
        last = b.rc[-1]
        b.text = b.text.replace(f"[{last}]", f"[{b.rc[0]}]")
        b.rc = b.rc[:-1]
    if dup_rc and len(b.fc) >= 2:
        last = b.fc[-1]
        b.text = b.text.replace(f"[{last}]", f"[{b.fc[0]}]")
        b.fc = b.fc[:-1]
    return b
