"""shared job builder for the validation-layer properties C13/C14/C16/C17"""
from __future__ import annotations

from typing import Dict, List

STEP_BOUNDS = {
    "seg_level": "19 evaluation classes (6 indicators x 3 outcomes + invalid) x 3 parent statuses x flag",
    "group_step": "own status {required, optional, forbidden, undetermined} x parent {none, required, optional, forbidden} x 0-2 sub-groups x 0-2 segments x flag x child yields",
    "segment_step": "own status x parent x 0-3 data elements x flag x yields",
    "deep_step": "0-3 root groups x flag x yields",
    "dispatch_step": "free text / value pool x segment status x flag x 7 entered values (absent, empty, padded, blank, other case)",
    "freetext_step": "19 evaluation classes x segment status {none, required, optional} x flag x input {None, '', text} x format result",
    "valuepool_step": "pool size 1-3 x entry outcome {fulfilled, unfulfilled, undetermined, invalid}^n x segment status x 8 entered inputs (absent, empty, each qualifier, foreign, truncated, joined)",
}


def jobs(mode: str, tier: str, steps, trees=(0, 1, 2, 3)) -> List[Dict]:
    out = []
    for fn in steps:
        if fn == "valuepool_step":
            for n in (1, 2, 3):
                for seg in range(3):
                    for c0 in (range(4) if n == 3 else (-1,)):
                        out.append({"fn": fn, "module": "vf.harness.val_harness", "globals": {"MODE": mode, "FIXN": n, "FIXSEG": seg, "FIXC0": c0, "SAME02": 0}, "timeout": 900 if n == 3 else 600, "bound": STEP_BOUNDS[fn]})
                    if n == 3 and mode == "C17" and seg < 2:
                        out.append({"fn": fn, "module": "vf.harness.val_harness", "globals": {"MODE": mode, "FIXN": 3, "FIXSEG": seg, "FIXC0": -1, "SAME02": 1}, "timeout": 900, "bound":     "pool of 3 whose first and last entry share one expression string (outcome classes of entries 0/1 symbolic) x 8 inputs"})
        elif fn == "freetext_step":
            for seg in range(3):
                out.append({"fn": fn, "module": "vf.harness.val_harness", "globals": {"MODE": mode, "FIXSEG": seg}, "timeout": 900, "bound": STEP_BOUNDS[fn]})
        elif fn == "group_step":
            for own in range(4):
                out.append({"fn": fn, "module": "vf.harness.val_harness", "globals": {"MODE": mode, "FIXOWN": own, "WIDE": None}, "timeout": 900, "bound": STEP_BOUNDS[fn]})
            if mode == "C13":
                for wide in ((3, 10), (0, 13), (13, 0)) + (((12, 13),) if tier == "thorough" else ()):
                    out.append({"fn": fn, "module": "vf.harness.val_harness", "globals": {"MODE": mode, "FIXOWN": -1, "WIDE": wide}, "timeout": 900, "bound": f"wide node: {wide[0]} sub-groups and {wide[1]} segments x own status x parent x flag x child yields"})
        else:
            out.append({"fn": fn, "module": "vf.harness.val_harness", "globals": {"MODE": mode, "FIXOWN": -1, "FIXSEG": -1, "FIXN": -1, "WIDE": None}, "timeout": 600, "bound": STEP_BOUNDS[fn]})
            if mode == "C13" and fn in ("segment_step", "deep_step"):
                for wide in (14, 17) + ((25,) if tier == "thorough" else ()):
                    out.append({"fn": fn, "module": "vf.harness.val_harness", "globals": {"MODE": mode, "FIXOWN": -1, "FIXSEG": -1, "FIXN": -1, "WIDE": wide}, "timeout": 600, "bound": f"wide node: {wide} children x own status x parent x flag x yields"})
    ninp = (2 if mode in ("C14", "C16") else 4) if tier == "thorough" else (1 if mode in ("C14", "C16") else 2)
    if tier != "thorough" and mode == "C14":
        trees = tuple(t for t in trees if t in (0, 1))
    for t in trees:
        for s1 in range(9):
            out.append({"fn": "tree_glue", "module": "vf.harness.val_glue", "globals": {"MODE": mode, "TREE": t, "NINP": ninp, "F901": -1 if tier == "thorough" else 1, "FIXS1": s1 // 3, "FIXS2": s1 % 3, "FLAG2_FREE": 1 if tier == "thorough" else 0, "PRELUDE": 1 if (mode == "C14" and t == 0) else 0, "PKG1P": "[1] U [2]"}, "timeout": 1500, "bound": f"whole AHB tree {t} with real expressions and real evaluation x states of 3 requirement keys x flag x {ninp} input sets"})
    if mode in ("C13", "C16"):
        # tree 1 again, its package [1P] defined differently in a validation that ran just before (C16: the current definition is invalid)
        for s1 in range(9 if tier == "thorough" else 3):
            out.append({"fn": "tree_glue", "module": "vf.harness.val_glue", "globals": {"MODE": mode, "TREE": 1, "NINP": 1, "F901": 1, "FIXS1": s1 // 3, "FIXS2": s1 % 3, "FLAG2_FREE": 0, "PRELUDE": 1, "PKG1P": "[2] O [501]" if mode == "C16" else "[1] U [2]"}, "timeout": 1500, "bound": "AHB tree 1 validated twice in one process with two definitions of package 1P (valid / invalid); second run judged"})
    out.sort(key=lambda j: -j["timeout"])
    return out
