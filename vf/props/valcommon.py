"""shared job builder for the validation-layer properties C13/C14/C16/C17"""
from __future__ import annotations

from typing import Dict, List

STEP_BOUNDS = {
    "seg_level": "19 evaluation classes (6 indicators x 3 outcomes + invalid) x 3 parent statuses x flag",
    "group_step": "own status {required, optional, forbidden, undetermined} x parent {none, required, optional, forbidden} x 0-2 sub-groups x 0-2 segments x flag x child yields",
    "segment_step": "own status x parent x 0-3 data elements x flag x yields",
    "deep_step": "0-3 root groups x flag x yields",
    "dispatch_step": "free text / value pool x segment status x flag",
    "freetext_step": "19 evaluation classes x segment status {none, required, optional} x flag x input {None, '', text} x format result",
    "valuepool_step": "pool size 1-3 x entry outcome {fulfilled, unfulfilled, undetermined, invalid}^n x segment status x 8 entered inputs (absent, empty, each qualifier, foreign, truncated, joined)",
}


def jobs(mode: str, tier: str, steps, trees=(0, 1, 2, 3)) -> List[Dict]:
    out = []
    for fn in steps:
        if fn == "valuepool_step":
            for n in (1, 2, 3):
                for seg in range(3):
                    for c0 in (range(4) if n == 3 else (-1,)):
                        out.append({"fn": fn, "module": "vf.harness.val_harness", "globals": {"MODE": mode, "FIXN": n, "FIXSEG": seg, "FIXC0": c0}, "timeout": 900 if n == 3 else 600, "bound": STEP_BOUNDS[fn]})
        elif fn == "freetext_step":
            for seg in range(3):
                out.append({"fn": fn, "module": "vf.harness.val_harness", "globals": {"MODE": mode, "FIXSEG": seg}, "timeout": 900, "bound": STEP_BOUNDS[fn]})
        elif fn == "group_step":
            for own in range(4):
                out.append({"fn": fn, "module": "vf.harness.val_harness", "globals": {"MODE": mode, "FIXOWN": own}, "timeout": 900, "bound": STEP_BOUNDS[fn]})
        else:
            out.append({"fn": fn, "module": "vf.harness.val_harness", "globals": {"MODE": mode, "FIXOWN": -1, "FIXSEG": -1, "FIXN": -1}, "timeout": 600, "bound": STEP_BOUNDS[fn]})
    ninp = 4 if tier == "thorough" else (1 if mode in ("C14", "C16") else 2)
    if tier != "thorough" and mode == "C14":
        trees = tuple(t for t in trees if t in (0, 1))
    for t in trees:
        for s1 in range(9):
            out.append({"fn": "tree_glue", "module": "vf.harness.val_glue", "globals": {"MODE": mode, "TREE": t, "NINP": ninp, "F901": -1 if tier == "thorough" else 1, "FIXS1": s1 // 3, "FIXS2": s1 % 3, "FLAG2_FREE": 1 if tier == "thorough" else 0}, "timeout": 1500, "bound": f"whole AHB tree {t} with real expressions and real evaluation x states of 3 requirement keys x flag x {ninp} input sets"})
    out.sort(key=lambda j: -j["timeout"])
    return out
