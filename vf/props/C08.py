"""C08 — format-constraint evaluation is Boolean and explains every failure."""
from __future__ import annotations

from vf import xh
from vf.common import Run
from vf.props.C04 import common_assumptions


def main(run: Run) -> int:
    from ahbicht.content_evaluation.fc_evaluators import FcEvaluator
    from ahbicht.expressions import expression_builder as eb
    from ahbicht.expressions import format_constraint_expression_evaluation as m
    from vf.harness import fc_harness

    run.encodes(m.FormatConstraintTransformer, m.format_constraint_evaluation, eb.FormatErrorMessageExpressionBuilder, FcEvaluator.evaluate_single_format_constraint)
    feats = lambda r, rep: {"part": r["fn"]}  # noqa: E731
    thorough = run.tier == "thorough"
    jobs = [{"fn": "fc_step", "globals": {"OP": op}, "timeout": 300, "bound": "all fulfilled flags x all error messages (symbolic bool / Optional[str])"} for op in range(3)]
    jobs.append({"fn": "fc_leaf", "globals": {}, "timeout": 300, "bound": "symbolic (fulfilled, message, sync/async, entered text)"})
    jobs.append({"fn": "fc_empty", "globals": {}, "timeout": 100, "bound": "None and ''"})
    fc_harness.MAXLEAVES = 3  # four-key shapes (540 x 16 assignments x 3) did not finish within 40 min in either tier; six hand-picked four-key expressions are part of the list
    n = len(fc_harness.cases())
    budget = 48 if thorough else 72  # paths per condition ~ sum over its cases of 2^keys x (2 without yields + 1 with)
    cs = fc_harness.cases()
    lo, acc = 0, 0
    for i, (_t, ks) in enumerate(cs):
        acc += (2 ** len(ks)) * 3
        if acc >= budget or i == n - 1:
            jobs.append({"fn": "fc_glue", "globals": {"MAXLEAVES": fc_harness.MAXLEAVES, "YMAX": 1, "YMAX_EVERY": 1 if thorough else 2, "LO": lo, "HI": i + 1}, "timeout": 600 + acc, "bound": "expressions of this partition x all truth assignments (symbolic) x with/without error messages x (no yields | the first three keys complete in reverse request order" + ("" if thorough else ", every 2nd expression") + ")"})
            lo, acc = i + 1, 0
    jobs.sort(key=lambda j: -j["timeout"])
    for r, j in zip(xh.run_jobs(run, "vf.harness.fc_harness", jobs), jobs):
        xh.default_verdict(run, r, feats, bound=j["bound"])
    run.bounds["glue"] = f"{n} expressions: every shape with <= {fc_harness.MAXLEAVES} keys x every operator combination x 4 spelling/bracket variants (2 for four keys; unbracketed ones exercise precedence), all 2^k truth assignments symbolic"
    run.bounds["step"] = "operands: fulfilled symbolic bool, message symbolic Optional[str] with invariant 'message is None <=> fulfilled'"
    common_assumptions(run)
    run.outside += ["single constraints that are fulfilled but nevertheless carry an error message (not produced by ahbicht's own evaluators; the statement's proviso does not settle them)", "wording of error messages"]
    run.sample({"step": "xor_composition((True, None), (True, None)) -> unfulfilled with a message"})
    return run.finish(
        "model_checking",
        "Step lemma with fully symbolic operands on the real FormatConstraintTransformer callbacks (Boolean value; message iff unfulfilled; invariant re-established), leaf lemma on the real "
        "FcEvaluator.evaluate_single_format_constraint, glue through the real format_constraint_evaluation with a symbolic truth assignment vs. the Boolean fold of the real parse tree.",
    )
