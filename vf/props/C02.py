"""
C02 — parsers accept exactly the documented language; everything else is SyntaxError.
  (a) GS: bounded language equality of the live condition grammar with an independently written recogniser of the
      documented language (one z3 query over all token sequences <= N) + lexical lemmas (z3 RE, no length bound)
  (b) XH: exception plumbing of the four entry points with a nondeterministic Lark stub
  (c) XH: assembled strings (indicator spellings x well-formed / malformed / garbage condition parts), parser concretised
"""
from __future__ import annotations

import re
import time

import z3

from vf import grammar_smt as gs
from vf import sre2z3, xh
from vf.common import ERROR, HELD, INCONCLUSIVE, VIOLATED, Run
from vf.props import C01

E, A, K1, KC, KP, KR, ERR = range(7)
DOC_RE = {
    "OR": "[Oo]|∨", "XOR": "[Xx]|⊻", "AND": "[Uu]|∧", "LPAR": r"\(", "RPAR": r"\)", "LSQB": r"\[", "RSQB": r"\]",
    "CKEY": "[0-9]+", "PKEY": "[0-9]+P", "REP": r"[0-9]+\.\.[1-9][0-9]*", "TIME": "UB[123]",
}


def doc_accepts(classes):
    """native version of the documented-language recogniser (token classes)"""
    st, d = E, 0
    for c in classes:
        if st == E:
            st, d = (E, d + 1) if c == "LPAR" else ((K1, d) if c == "LSQB" else (ERR, d))
        elif st == A:
            if c in ("OR", "XOR", "AND"):
                st = E
            elif c == "RPAR":
                st, d = (A, d - 1) if d > 0 else (ERR, d)
            elif c == "LPAR":
                st, d = E, d + 1
            elif c == "LSQB":
                st = K1
            else:
                st = ERR
        elif st == K1:
            st = KC if c in ("CKEY", "TIME") else (KP if c == "PKEY" else ERR)
        elif st == KC:
            st = A if c == "RSQB" else ERR
        elif st == KP:
            st = KR if c == "REP" else (A if c == "RSQB" else ERR)
        elif st == KR:
            st = A if c == "RSQB" else ERR
        if st == ERR:
            return False
    return st == A and d == 0


def gs_language(run: Run, N: int):
    from ahbicht.expressions import condition_expression_parser as cep
    from vf import env

    lark_obj = env.real_parser("condition")
    run.encodes(cep)
    g = gs.Grammar(lark_obj)
    cls = C01.classify_terminals(g)
    T = gs.Tables(g, N, with_labels=False)
    cid = {c: [g.tindex[t] for t in g.tindex if cls[t][0] == c] for c in C01.SAMPLES}

    def tok_in(k, c):
        ids = cid[c]
        return z3.Or(*[T.w[k] == x for x in ids]) if ids else z3.BoolVal(False)

    st = [z3.Int(f"st{k}") for k in range(N + 1)]
    dp = [z3.Int(f"dp{k}") for k in range(N + 1)]
    defs = [st[0] == E, dp[0] == 0]
    for k in range(N):
        is_op = z3.Or(tok_in(k, "OR"), tok_in(k, "XOR"), tok_in(k, "AND"))
        from_e = z3.If(tok_in(k, "LPAR"), E, z3.If(tok_in(k, "LSQB"), K1, ERR))
        from_a = z3.If(is_op, E, z3.If(tok_in(k, "RPAR"), z3.If(dp[k] > 0, A, ERR), z3.If(tok_in(k, "LPAR"), E, z3.If(tok_in(k, "LSQB"), K1, ERR))))
        from_k1 = z3.If(z3.Or(tok_in(k, "CKEY"), tok_in(k, "TIME")), KC, z3.If(tok_in(k, "PKEY"), KP, ERR))
        from_kc = z3.If(tok_in(k, "RSQB"), A, ERR)
        from_kp = z3.If(tok_in(k, "REP"), KR, z3.If(tok_in(k, "RSQB"), A, ERR))
        nxt = z3.If(st[k] == E, from_e, z3.If(st[k] == A, from_a, z3.If(st[k] == K1, from_k1, z3.If(st[k] == KC, from_kc, z3.If(st[k] == KP, from_kp, z3.If(st[k] == KR, from_kc, ERR))))))
        defs.append(st[k + 1] == nxt)
        defs.append(dp[k + 1] == dp[k] + z3.If(z3.And(z3.Or(st[k] == E, st[k] == A), tok_in(k, "LPAR")), 1, z3.If(z3.And(st[k] == A, tok_in(k, "RPAR")), -1, 0)))
    l_doc = z3.Or(*[z3.And(T.n == j, st[j] == A, dp[j] == 0) for j in range(1, N + 1)])
    l_real = T.in_language()
    base = T.dom + T.defs + defs
    name = f"language equality: live condition grammar == documented language, all token sequences of <= {N} tokens"
    res, model, dt, _ = gs.solve(base + [l_real != l_doc], timeout_ms=1200000 if run.tier == "thorough" else 300000, seed=run.seed)
    tw1, _, d1, _ = gs.solve(base + [l_real, T.n >= min(N, 9)], timeout_ms=60000)
    tw2, _, d2, _ = gs.solve(base + [z3.Not(l_real), T.n >= 3], timeout_ms=60000)
    run.counters["smt_queries"] += 3
    run.counters["smt_time_s"] += dt + d1 + d2
    run.bounds["GS_tokens"] = f"all sequences of <= {N} tokens over the {len(g.terms)} terminal classes ({len(g.terms)}^{N} of maximal length)"
    from vf import env as _env

    def real_accepts(text):
        try:
            _env.real_parser("condition").parse(text)
            return True
        except Exception:  # pylint:disable=broad-except
            return False

    if tw1 != "sat" or tw2 != "sat":
        run.ob(name, "z3", ERROR, detail=f"vacuity twins {tw1}/{tw2}")
    elif res == "unsat":
        run.ob(name, "z3", HELD, time_s=round(dt, 2), bound=run.bounds["GS_tokens"])
    elif res == "sat":
        n = model.eval(T.n, model_completion=True).as_long()
        toks = gs.model_tokens(model, T, n)
        classes = [cls[t][0] for t in toks]
        doc = doc_accepts(classes)
        reproduced = None
        for variant in (1, 0, 2):
            text = C01.render(toks, cls, variant)
            run.counters["replayed_witnesses"] += 1
            if real_accepts(text) != doc:
                reproduced = text
                break
        if reproduced is not None:
            what = f"condition parser {'accepts' if not doc else 'rejects'} '{reproduced}' which {'is not' if not doc else 'is'} in the documented language"
            run.ob(name, "z3", VIOLATED, detail=what)
            run.violation(name, what, {"part": "language", "accepts_malformed": not doc}, {"kind": "C02-lang", "property": "C02", "text": reproduced, "documented": doc})
        else:
            run.ob(name, "z3", ERROR, detail=f"token sequence {toks}: encoding and documented recogniser disagree but the real parser agrees with the documentation")
    else:
        run.ob(name, "z3", INCONCLUSIVE, detail=f"{res} after {dt:.0f}s")

    # translation validation of the CYK encoding (DESIGN §4.4): solver-chosen members and non-members through the real parser
    s = z3.Solver()
    s.set("timeout", 20000)
    s.set("random_seed", run.seed)
    for a_ in base:
        s.add(a_)
    bad = 0
    done = 0
    for want in (True, False):
        for it in range(30):
            s.push()
            s.add(l_real if want else z3.Not(l_real))
            s.add(T.n >= 2 + it % max(1, N - 2))
            if not want:
                # near misses are more interesting than noise: a non-member whose documented run fails late
                s.add(st[min(N, 2 + it % 3)] != ERR)
            r = s.check()
            if str(r) != "sat":
                s.pop()
                continue
            m = s.model()
            n = m.eval(T.n, model_completion=True).as_long()
            toks = gs.model_tokens(m, T, n)
            s.pop()
            s.add(z3.Or(*[T.w[k] != m.eval(T.w[k], model_completion=True) for k in range(n)] + [T.n != n]))
            text = C01.render(toks, cls, 1 if not want else it)
            done += 1
            run.counters["replayed_witnesses"] += 1
            if real_accepts(text) != want:
                bad += 1
                run.error(f"translation validation: encoding says {'member' if want else 'non-member'} for '{text}' ({toks}), real parser says otherwise")
            if done in (1, 31):
                run.sample({"witness": text, "member": want})
    # the repository's own parser test inputs through the encoding's native twin
    run.ob(f"translation validation of the CYK encoding: {done} solver-chosen members/non-members through the real parser", "replay", HELD if bad == 0 and done >= 30 else ERROR, detail=f"{bad} disagreements")
    lexical(run, g, cls)


def lexical(run: Run, g, cls):
    """each terminal class of the live grammar accepts exactly the documented lexemes (no length bound)"""
    from vf import env

    def real_accepts(text):
        try:
            env.real_parser("condition").parse(text)
            return True
        except Exception:  # pylint:disable=broad-except
            return False

    context = {"OR": "[1]{}[2]", "XOR": "[1]{}[2]", "AND": "[1]{}[2]", "LPAR": "{}[1])", "RPAR": "([1]{}", "LSQB": "{}1]", "RSQB": "[1{}", "CKEY": "[{}]", "PKEY": "[{}]", "REP": "[1P{}]", "TIME": "[{}]"}
    for c, pat in DOC_RE.items():
        terms = [t for t in g.terms if cls[t.name][0] == c]
        name = f"terminal class {c} == /{pat}/"
        if not terms:
            run.ob(name, "z3-re", INCONCLUSIVE, detail="no live terminal of this class")
            continue
        try:
            live = z3.Union(*[sre2z3.lark_terminal_re(t) for t in terms]) if len(terms) > 1 else sre2z3.lark_terminal_re(terms[0])
            verdict, wit, dt = sre2z3.re_equal(live, sre2z3.to_z3(pat))
        except sre2z3.Unsupported as u:
            run.ob(name, "z3-re", INCONCLUSIVE, detail=str(u))
            continue
        run.counters["smt_queries"] += 1
        run.counters["smt_time_s"] += dt
        if verdict == "equal":
            run.ob(name, "z3-re", HELD, time_s=round(dt, 3), bound=sre2z3.BOUND)
        elif verdict == "differ":
            w = sre2z3.unescape_z3(wit)
            documented = re.fullmatch(pat, w) is not None
            text = context[c].format(w)
            acc = real_accepts(text)
            run.counters["replayed_witnesses"] += 1
            if acc != documented:
                what = f"condition parser {'accepts' if acc else 'rejects'} '{text}' although '{w}' {'is not' if not documented else 'is'} a documented {c} lexeme (/{pat}/)"
                run.ob(name, "z3-re", VIOLATED, detail=what)
                run.violation(name, what, {"part": "lexical", "class": c, "accepts_malformed": acc}, {"kind": "C02-lang", "property": "C02", "text": text, "documented": documented})
            else:
                run.ob(name, "z3-re", INCONCLUSIVE, detail=f"terminal regex differs from /{pat}/ on {w!r} but '{text}' is still judged as documented")
        else:
            run.ob(name, "z3-re", INCONCLUSIVE, detail="unknown")


def _ahb_entrypoints(text: str):
    """outcomes of the AHB-level entry points on `text` (native, real asyncio loop): each 'tree' | 'SyntaxError' | ('tuple', value) | 'raised <type>'"""
    import asyncio

    import ahbicht.content_evaluation as ce
    from ahbicht.expressions.ahb_expression_evaluation import evaluate_ahb_expression_tree
    from ahbicht.expressions.ahb_expression_parser import parse_ahb_expression_to_single_requirement_indicator_expressions as parse_ahb
    from ahbicht.expressions.expression_resolver import parse_expression_including_unresolved_subexpressions as resolve
    from ahbicht.models.condition_nodes import ConditionFulfilledValue as V
    from vf import env

    def outcome(thunk):
        try:
            r = thunk()
        except SyntaxError:
            return "SyntaxError"
        except Exception as e:  # pylint:disable=broad-except
            return f"raised {type(e).__name__}: {str(e)[:80]}"
        return ("tuple", r) if isinstance(r, tuple) else "tree"

    env.setup(rc={"1": V.FULFILLED})
    out = {"AHB parser": outcome(lambda: parse_ahb(text)), "resolver": outcome(lambda: asyncio.run(resolve(text))), "is_valid_expression": outcome(lambda: asyncio.run(ce.is_valid_expression(text, lambda _x: None)))}

    def evaluate():
        asyncio.run(evaluate_ahb_expression_tree(parse_ahb(text)))
        return "tree"

    out["evaluation"] = outcome(evaluate)
    return out


def _ahb_indicator_problem(text: str):
    o = _ahb_entrypoints(text)
    for name in ("AHB parser", "resolver", "evaluation"):
        if o[name] not in ("tree", "SyntaxError"):
            return f"{name}({text!r}) ended with '{o[name]}', expected a tree/result or SyntaxError"
    v = o["is_valid_expression"]
    if not (isinstance(v, tuple) and isinstance(v[1], tuple) and len(v[1]) == 2 and isinstance(v[1][0], bool)):
        return f"is_valid_expression({text!r}) ended with '{v}' instead of returning (bool, message)"
    if o["AHB parser"] == "SyntaxError" and o["resolver"] != "SyntaxError":
        return f"the AHB parser rejects {text!r} but the resolver ends with {o['resolver']}"
    if v[1][0] is True and o["evaluation"] != "tree":
        return f"is_valid_expression({text!r}) = (True, ...) but evaluation ended with {o['evaluation']}"
    if v[1][0] is False and o["evaluation"] == "tree" and o["AHB parser"] == "tree":
        return f"is_valid_expression({text!r}) = {v[1]!r} but the expression parses and evaluates"
    return None


def ahb_indicators(run: Run):
    """the finite languages of the live indicator terminals, enumerated completely by z3 over all code points (Unicode case
    folding included), each lexeme as indicator of three AHB expressions through all AHB-level entry points"""
    from vf import env

    lark_obj = env.real_parser("ahb")
    for t in lark_obj.terminals:
        if t.name not in ("MODAL_MARK", "PREFIX_OPERATOR"):
            continue
        lname = f"every lexeme of the live AHB terminal {t.name} as indicator ('<L> [1]', '<L>', 'Muss [1] <L>'): tree or SyntaxError from parser/resolver/evaluation, (bool, message) from the validity check, check and evaluation agree"
        try:
            live = sre2z3.lark_terminal_re(t)
        except sre2z3.Unsupported as u:
            run.ob(lname, "z3-re+replay", INCONCLUSIVE, detail=str(u))
            continue
        s = z3.String("s")
        sol = z3.Solver()
        sol.set("timeout", 20000)
        sol.add(z3.InRe(s, live))
        members, complete = [], False
        while len(members) < 400:
            r = sol.check()
            run.counters["smt_queries"] += 1
            if str(r) == "unsat":
                complete = True
                break
            if str(r) != "sat":
                break
            v = sre2z3.unescape_z3(sol.model()[s].as_string())
            members.append(v)
            sol.add(s != z3.StringVal(v))
        bad = None
        for v in members:
            for text in (f"{v} [1]", v, f"Muss [1] {v}"):
                run.counters["replayed_witnesses"] += 1
                why = _ahb_indicator_problem(text)
                if why and bad is None:
                    bad = (v, text, why)
        if bad:
            v, text, why = bad
            run.ob(lname, "z3-re+replay", VIOLATED, detail=why)
            run.violation(lname, why, {"part": "ahb-indicator", "terminal": t.name, "non_ascii_lexeme": not v.isascii(), "raises": "raised" in why}, {"kind": "C02-ahb", "property": "C02", "text": text})
        else:
            run.ob(lname, "z3-re+replay", HELD if complete else INCONCLUSIVE, bound=f"{len(members)} lexemes, enumeration {'complete (unsat after blocking)' if complete else 'INCOMPLETE'}; " + sre2z3.BOUND)


def xh_part(run: Run):
    from vf.harness import c02_harness

    jobs = [{"fn": "plumbing", "globals": {}, "timeout": 300, "bound": "4 entry points x 4 behaviours of the AHB parse x 4 of the condition parse (tree, UnexpectedEOF, UnexpectedCharacters, TypeError)"}]
    jobs.append({"fn": "history_pairs", "globals": {}, "timeout": 400, "bound": "8 pairs (well-formed, malformed by whitespace inside a token or by the letter case of a case-sensitive token) validated in both orders in one process, real caches"})
    n = len(c02_harness.string_cases())
    for lo in range(0, n, 10):
        jobs.append({"fn": "strings", "globals": {"LO": lo, "HI": min(n, lo + 10)}, "timeout": 400, "bound": "assembled strings of this partition x 4 entry points"})
    feats = lambda r, rep: {"part": r["fn"], "VisitError": "VisitError" in (rep.get("what") or "")}  # noqa: E731
    for r, j in zip(xh.run_jobs(run, "vf.harness.c02_harness", jobs), jobs):
        xh.default_verdict(run, r, feats, bound=j["bound"])
    run.bounds["XH_strings"] = f"{n} assembled strings (9 indicator spellings x 6 well-formed + 14 malformed condition parts, garbage, multi-part) x 4 entry points"


def main(run: Run) -> int:
    run.engines["GS"] = f"grammar-to-SMT, z3 {z3.get_version_string()}"
    N = 12 if run.tier == "quick" else 18
    try:
        gs_language(run, N)
    except (gs.Unsupported, sre2z3.Unsupported) as u:
        run.ob("GS encoding of the live grammar", "GS", INCONCLUSIVE, detail=f"grammar outside the encodable subset ({u}); the XH harnesses still run")
    try:
        ahb_indicators(run)
    except sre2z3.Unsupported as u:
        run.ob("AHB indicator terminals", "z3-re+replay", INCONCLUSIVE, detail=str(u))
    xh_part(run)
    run.assume(
        "token level: a string is in the parser's language iff it is a concatenation of lexemes of a token sequence of the grammar with optional whitespace between tokens (Earley with dynamic lexer; validated on solver-chosen members/non-members through the real parser)",
        "Lark.parse raises nothing but UnexpectedEOF / UnexpectedCharacters / TypeError on malformed input (what ahbicht's own except clause lists); the stub of (b) returns/raises exactly these",
    )
    run.outside += [
        "that Lark raises no other exception type on arbitrary garbage (library internals)",
        "token sequences longer than N",
        "the AHB grammar's own accepted language (its CONDITION_EXPRESSION regex uses a negative look-ahead that z3's regex theory cannot express): covered by (b) and (c) only",
        "bare condition expressions handed to is_valid_expression",
    ]
    return run.finish(
        "model_checking",
        "Bounded language equality decided by one z3 query over all token sequences up to N; lexical lemmas unbounded; exception plumbing of all entry points over all "
        "stub behaviours (CrossHair); assembled strings through the real parsers.",
    )


def replay(p: dict) -> dict:
    from vf import env

    if p.get("kind") == "C02-lang":
        try:
            env.real_parser("condition").parse(p["text"])
            acc = True
        except Exception:  # pylint:disable=broad-except
            acc = False
        return {"outcome": "fail" if acc != p["documented"] else "pass", "what": f"parser {'accepts' if acc else 'rejects'} {p['text']!r}; documented language: {'member' if p['documented'] else 'not a member'}"}
    if p.get("kind") == "C02-ahb":
        why = _ahb_indicator_problem(p["text"])
        return {"outcome": "fail" if why else "pass", "what": why or f"{p['text']!r}: all AHB-level entry points behave as stated"}
    return {"outcome": "harness-error", "detail": "unknown kind"}
