"""C07 — collected format-constraint expression: XH step on the real builder/callbacks, z3 regex lemma on the
bracket-stripping pattern, XH+DetLoop glue with re-evaluation."""
from __future__ import annotations

from vf import glue, xh
from vf.common import Run
from vf.props.C04 import common_assumptions


def main(run: Run) -> int:
    from ahbicht.expressions import expression_builder as eb
    from ahbicht.expressions import requirement_constraint_expression_evaluation as m
    from vf.harness import rc_step

    run.encodes(eb.FormatConstraintExpressionBuilder, m.RequirementConstraintTransformer, m.requirement_constraint_evaluation)
    feats = lambda r, rep: {"part": r["fn"], "mode": "C07"}  # noqa: E731
    alljobs = []
    ncases = len(rc_step.fce_cases())
    chunk = 50
    for lo in range(0, ncases, chunk):
        alljobs.append({"fn": "fce_step", "module": "vf.harness.rc_step", "globals": {"F_LO": lo, "F_HI": min(ncases, lo + chunk)}, "timeout": 300, "bound": "operand pairs of this partition (all in-scope pairs are covered by the union)"})
    for j in glue.glue_jobs("C07", run.tier, chunk=6):
        alljobs.append(dict(j, module="vf.harness.rc_glue", bound="selector-built expressions of this partition x all states; format-constraint truth values symbolic"))
    alljobs.sort(key=lambda j: -j.get("timeout", 0))
    for r, j in zip(xh.run_jobs(run, "vf.harness.rc_step", alljobs), alljobs):
        xh.default_verdict(run, r, feats, bound=j["bound"])
    regex_lemma(run)
    run.bounds.update(glue.glue_bounds(run.tier))
    run.bounds["step"] = f"{ncases} in-scope operand pairs of 4 callbacks x {rc_step.NOPER} x {rc_step.NOPER} operands (RC x3, Hint, UFC, EvaluatedComposition 4 values x 7 structural representatives of format-constraint expressions over disjoint keys); truth tables compared on all 2^8 assignments"
    common_assumptions(run)
    run.assume("operand expressions of the step lemma are structural representatives (absent, single key, A op B, bracket-led, left-/right-nested, shared key); expressions of other shapes reach the callbacks only through the glue harness")
    run.outside += ["literal spelling/spacing/bracketing of the collected expression (only well-formedness and meaning are compared)", "where an outer attachment is not effective both readings (inner constraints kept / dropped) are accepted"]
    run.sample({"step": "and_composition(comp:FULFILLED fce='[901] U [902]', fc[908]) -> '([901] U [902]) U [908]' == and of the operands' tables"})
    return run.finish(
        "model_checking",
        "CrossHair 'Confirmed over all paths' for every operand pair of each real callback (result parses with the real parser and its truth "
        "table equals op applied to the operands' tables); z3 regular-expression lemma on the live bracket-stripping pattern; glue through the real "
        "requirement_constraint_evaluation and format_constraint_evaluation with symbolic format-constraint truth values.",
    )


def regex_lemma(run: Run):
    """every match of the live _one_key_surrounded_by_brackets_pattern is '(' '[' digits ']' ')' and is replaced by its body"""
    try:
        from vf import sre2z3
    except ImportError:
        return
    sre2z3.c07_bracket_lemma(run)
