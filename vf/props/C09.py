"""
C09 — AHB expressions split into their parts; the first fulfilled part decides.
  z3 RE: live MODAL_MARK / PREFIX_OPERATOR terminals == documented spellings (no length bound); every member of the (finite)
         live language — enumerated by z3 with blocking clauses until unsat — is pushed through the REAL token callbacks
  XH+DL: selection loop with symbolic outcomes/awaitability/yields; assembled expressions through parser, resolver, evaluation
"""
from __future__ import annotations

import z3

from vf import sre2z3, xh
from vf.common import ERROR, HELD, INCONCLUSIVE, VIOLATED, Run
from vf.props.C04 import common_assumptions


def indicator_lemmas(run: Run):
    from lark import Token

    from ahbicht.expressions import ahb_expression_evaluation as ev
    from ahbicht.models.enums import ModalMark, PrefixOperator
    from vf import env

    lark_obj = env.real_parser("ahb")
    terms = {t.name: t for t in lark_obj.terminals}
    run.encodes(ev.AhbExpressionTransformer.MODAL_MARK, ev.AhbExpressionTransformer.PREFIX_OPERATOR)
    doc = {"MODAL_MARK": ("[Mm]([Uu][Ss][Ss])?|[Ss]([Oo][Ll][Ll])?|[Kk]([Aa][Nn][Nn])?", {"M": ModalMark.MUSS, "S": ModalMark.SOLL, "K": ModalMark.KANN}), "PREFIX_OPERATOR": ("[XxOoUu]", {"X": PrefixOperator.X, "O": PrefixOperator.O, "U": PrefixOperator.U})}
    for tname, (pat, mapping) in doc.items():
        name = f"terminal {tname} == documented spellings /{pat}/"
        t = terms.get(tname)
        if t is None:
            run.ob(name, "z3-re", INCONCLUSIVE, detail="terminal not found in the live grammar (renamed?); covered by the glue harness")
            continue
        try:
            live = sre2z3.lark_terminal_re(t)
            verdict, wit, dt = sre2z3.re_equal(live, sre2z3.to_z3(pat))
        except sre2z3.Unsupported as u:
            run.ob(name, "z3-re", INCONCLUSIVE, detail=str(u))
            continue
        run.counters["smt_queries"] += 1
        run.counters["smt_time_s"] += dt
        if verdict == "equal":
            run.ob(name, "z3-re", HELD, time_s=round(dt, 3), bound=sre2z3.BOUND)
        else:
            run.ob(name, "z3-re", INCONCLUSIVE, detail=f"{verdict} ({sre2z3.unescape_z3(wit) if wit else ''}); consequences are decided by the callbacks lemma and the glue harness")
        # enumerate the live language completely (z3 AllSAT until unsat) and push every member through the real callback
        s = z3.String("s")
        sol = z3.Solver()
        sol.set("timeout", 20000)
        sol.add(z3.InRe(s, live))
        members = []
        complete = False
        while len(members) < 400:
            r = sol.check()
            run.counters["smt_queries"] += 1
            if str(r) == "unsat":
                complete = True
                break
            if str(r) != "sat":
                break
            v = sre2z3.unescape_z3(sol.model()[s].as_string())
            members.append(v)
            sol.add(s != z3.StringVal(v))
        cb = getattr(ev.AhbExpressionTransformer(), tname)
        bad = []
        for v in members:
            run.counters["replayed_witnesses"] += 1
            try:
                got = cb(Token(tname, v))
            except Exception as e:  # pylint:disable=broad-except
                bad.append((v, f"raises {type(e).__name__}: {e}"))
                continue
            want = mapping.get(v[:1].upper())
            if got is not want:
                bad.append((v, f"-> {got!r}, expected {want!r}"))
        lname = f"every lexeme of the live {tname} terminal ({len(members)} strings, enumeration {'complete (unsat after blocking)' if complete else 'INCOMPLETE'}) is normalised to the indicator of its first letter by the real callback"
        if bad:
            v, why = bad[0]
            what = f"{tname} lexeme '{v}' (accepted by the parser) {why}"
            run.ob(lname, "z3-re+replay", VIOLATED, detail=what)
            run.violation(lname, what, {"entry": tname, "spelling_is_lowercase": v.islower() and v.isascii(), "non_ascii_lexeme": not v.isascii(), "raises": "raises" in why}, {"kind": "C09-token", "property": "C09", "terminal": tname, "lexeme": v})
        else:
            run.ob(lname, "z3-re+replay", HELD if complete else INCONCLUSIVE)
        run.sample({"terminal": tname, "members": members[:8]})


def main(run: Run) -> int:
    from ahbicht.expressions import ahb_expression_evaluation as ev
    from vf.harness import ahb_harness

    run.encodes(ev.AhbExpressionTransformer, ev.evaluate_ahb_expression_tree)
    indicator_lemmas(run)
    thorough = run.tier == "thorough"
    jobs = []
    ymax = 2 if thorough else 1
    for k in (1, 2, 3) + ((4,) if thorough else ()):
        for f0 in ((-1,) if k < 3 else (0, 1, 2)):
            jobs.append({"fn": "select", "globals": {"K": k, "F0": f0, "YMAX": 1 if k == 4 else ymax}, "timeout": 1800 if k >= 3 else 300, "bound": f"k={k} parts x outcomes {{True,False,None}}^k x plain/awaitable x yields<={ymax} (symbolic)"})
    ahb_harness.LEVEL = 1 if thorough else 0
    n = len(ahb_harness.cases())
    chunk = 4
    for lo in range(0, n, chunk):
        jobs.append({"fn": "glue", "globals": {"LEVEL": ahb_harness.LEVEL, "LO": lo, "HI": min(n, lo + chunk)}, "timeout": 600, "bound": "assembled AHB expressions of this partition x all states of their requirement keys x format-constraint value"})
    jobs.sort(key=lambda j: -j["timeout"])
    feats = lambda r, rep: {"part": r["fn"], "ValueError_prefix_operator": "is not a valid PrefixOperator" in (rep.get("what") or "")}  # noqa: E731
    for r, j in zip(xh.run_jobs(run, "vf.harness.ahb_harness", jobs), jobs):
        xh.default_verdict(run, r, feats, bound=j["bound"])
    run.bounds["glue"] = f"{n} assembled expressions: every modal-mark spelling (14) x 5 condition parts x rotated whitespace, bare marks, prefix operators (6 spellings), two/three-part expressions with optional trailing bare mark; all states of <= 3 requirement keys"
    run.bounds["select"] = "k <= 3 (4 thorough) parts"
    common_assumptions(run)
    run.outside += ["requirement_is_conditional of a part that was selected among several (the code forces it to True)", "code points above U+2FFFF in the terminal lemmas (z3's character sort)", "the split itself happens inside Lark (concretised): claimed for the assembled strings only"]
    return run.finish(
        "model_checking",
        "Terminal languages decided by z3 regex equality (unbounded); the finite live language is enumerated completely by z3 and every lexeme is replayed on the real token callbacks; "
        "selection loop and assembled expressions explored by CrossHair on DetLoop ('Confirmed over all paths').",
    )


def replay(p: dict) -> dict:
    if p.get("kind") == "C09-token":
        from lark import Token

        from ahbicht.expressions import ahb_expression_evaluation as ev
        from ahbicht.models.enums import ModalMark, PrefixOperator

        try:
            got = getattr(ev.AhbExpressionTransformer(), p["terminal"])(Token(p["terminal"], p["lexeme"]))
        except Exception as e:  # pylint:disable=broad-except
            return {"outcome": "fail", "what": f"{p['terminal']} '{p['lexeme']}' raises {type(e).__name__}: {e}"}
        want = {"M": ModalMark.MUSS, "S": ModalMark.SOLL, "K": ModalMark.KANN, "X": PrefixOperator.X, "O": PrefixOperator.O, "U": PrefixOperator.U}.get(p["lexeme"][:1].upper())
        if p["terminal"] == "PREFIX_OPERATOR" and p["lexeme"][:1].upper() in "XOU":
            want = PrefixOperator(p["lexeme"][:1].upper())
        return {"outcome": "pass" if got is want else "fail", "what": f"{p['lexeme']} -> {got!r}"}
    return {"outcome": "harness-error", "detail": "unknown kind"}
