"""C17 — value pools offer exactly the admissible qualifiers and judge input by them."""
from __future__ import annotations

from vf import xh
from vf.common import Run
from vf.props import valcommon
from vf.props.C04 import common_assumptions


def main(run: Run) -> int:
    from ahbicht.validation import validation as V

    run.encodes(V.validate_data_element_valuepool, V.validate_segment)
    jobs = valcommon.jobs("C17", run.tier, ("valuepool_step", "dispatch_step"), trees=(0, 3, 2))
    feats = lambda r, rep: {"part": r["fn"], "nothing_offered_not_forbidden": "nothing" in (rep.get("what") or "") and "forbidden" in (rep.get("what") or "")}  # noqa: E731
    for r, j in zip(xh.run_jobs(run, "vf.harness.val_harness", jobs), jobs):
        xh.default_verdict(run, r, feats, bound=j["bound"])
    common_assumptions(run)
    run.outside += ["the requirement status reported for an accepted / unexpected value beyond 'accepted (FILLED, not flagged) / flagged and EMPTY'", "format constraints of value pools"]
    run.sample({"pool": "[(Z01, unfulfilled), (Z1, fulfilled)], entered 'Z0' -> offered [Z1], flagged, reported empty"})
    return run.finish(
        "model_checking",
        "CrossHair explores the real validate_data_element_valuepool for every pool of 1-3 entries x entry outcomes {fulfilled, unfulfilled, undetermined, invalid} x segment status x 8 entered inputs "
        "(incl. truncated and joined qualifiers); whole trees with real evaluation.",
    )
