"""C15 — each data element's format constraints see only that element's own input (XH + DetLoop, symbolic schedules)."""
from __future__ import annotations

from vf import xh
from vf.common import Run
from vf.props.C04 import common_assumptions


def main(run: Run) -> int:
    from ahbicht.content_evaluation import fc_evaluators
    from ahbicht.validation import validation as V

    run.encodes(V.validate_data_element_freetext, V.validate_segment, V.validate_segment_group, fc_evaluators.FcEvaluator.evaluate_single_format_constraint, fc_evaluators.FcEvaluator.evaluate_format_constraints)
    thorough = run.tier == "thorough"
    jobs = []
    nel = 5 if thorough else 4
    ymax = 2 if thorough else 1
    for entry in (0, 1):
        for f0 in range(ymax + 1):
            for f1 in range(ymax + 1):
                jobs.append({"fn": "own_input", "globals": {"ENTRY": entry, "NEL": nel, "YMAX": ymax, "FIX": (f0, f1)}, "timeout": 1500, "bound": f"{nel} free-text elements in two segments sharing format-constraint keys, evaluator yields 0..{ymax} per element (symbolic), requirement evaluator yields 0..1"})
    feats = lambda r, rep: {"part": "own_input"}  # noqa: E731
    for r, j in zip(xh.run_jobs(run, "vf.harness.ctx_harness", jobs), jobs):
        xh.default_verdict(run, r, feats, bound=j["bound"])
    common_assumptions(run)
    run.assume("format-constraint evaluator: async evaluate_<key>(entered_input) methods that suspend for a symbolic number of loop turns and judge by the text they are handed")
    run.outside += ["schedules only the C-accelerated Task or a non-FIFO loop could produce", "value pools (no format constraints evaluated there)"]
    run.bounds["schedules"] = f"(ymax+1)^{nel} x 2 yield vectors per entry point; entry points validate_deep_anwendungshandbuch and validate_segment"
    run.sample({"elements": "D0 'Muss [1][950]' input 'alpha'; D1 'Muss [950]' input ''; D2 'Kann [2][951] U [950]' input 'gamma'; D3 'X [950]' input None"})
    return run.finish(
        "model_checking",
        "CrossHair explores every yield vector of the text-dependent format-constraint evaluator (symbolic ints) through the real validation on DetLoop: each element's format result must be the one "
        "for its own input and equal the element validated on its own.",
    )
