"""C16 — an invalid expression makes one node optional and never aborts validation (fault set symbolic)."""
from __future__ import annotations

from vf import xh
from vf.common import Run
from vf.props import valcommon
from vf.props.C04 import common_assumptions


def main(run: Run) -> int:
    from ahbicht.validation import validation as V

    run.encodes(V.get_segment_level_requirement_validation_value, V.validate_data_element_freetext, V.validate_data_element_valuepool)
    jobs = valcommon.jobs("C16", run.tier, ("seg_level", "freetext_step", "valuepool_step"), trees=(2, 3, 4))
    feats = lambda r, rep: {"part": r["fn"]}  # noqa: E731
    for r, j in zip(xh.run_jobs(run, "vf.harness.val_harness", jobs), jobs):
        xh.default_verdict(run, r, feats, bound=j["bound"])
    common_assumptions(run)
    run.assume("fault model: the evaluation of a node's expression raises InvalidExpressionError (stub, any node kind, any subset of value-pool entries) — in the glue real invalid expressions ('Muss [2] O [501]', also with further modal-mark parts) raise it through the real evaluation")
    run.outside += ["the status suffix of a free-text element with an invalid expression beyond 'optional'"]
    run.sample({"fault": "value pool [(Z01, invalid), (Z1, fulfilled), (E17, unfulfilled)] offers [Z01, Z1]"})
    return run.finish(
        "fault_enumeration",
        "Every node kind with an invalid expression (stubbed InvalidExpressionError; all subsets of invalid value-pool entries) is reported optional with the reason, nothing aborts; whole trees with real "
        "invalid expressions at a group, a segment, a free-text element and value-pool entries equal the run with 'Kann' in their place on every other node.",
    )
