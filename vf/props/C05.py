"""C05 — information-only elements never change the requirement.  PZ algebra (C03 lemmas re-discharged: commutativity,
NEUTRAL identity, monotonicity), XH step lemmas (swap symmetry, hint and-ing, FC attachment, refinement) on the real callbacks,
XH+DetLoop metamorphic glue through the real requirement_constraint_evaluation."""
from __future__ import annotations

import z3

from vf import glue, pyz3, xh
from vf.common import ERROR, HELD, INCONCLUSIVE, VIOLATED, Run
from vf.props.C04 import common_assumptions


def algebra(run: Run):
    """the three algebraic facts C05 rests on, re-discharged on the current source (see C03 for the full law set)"""
    from vf.props import C03

    try:
        dom, op, paths, stats = C03.build_ops(run)
    except pyz3.Unsupported as u:
        run.ob("algebra (PZ)", "PZ", INCONCLUSIVE, detail=f"source outside PZ subset ({u}); covered by the XH step lemmas below")
        return
    a, b, a2, b2 = z3.Ints("a b a2 b2")
    d = [a >= 0, a < 4, b >= 0, b < 4, a2 >= 0, a2 < 4, b2 >= 0, b2 < 4]
    leq = lambda x, y: z3.Or(x == y, x == C03.K)  # noqa: E731
    real = None
    from ahbicht.models.condition_nodes import ConditionFulfilledValue as CFV

    real_ops = {"__and__": CFV.__and__, "__or__": CFV.__or__, "__xor__": CFV.__xor__}
    for name, f in op.items():
        for law, claim in (
            ("commutative", f(a, b) == f(b, a)),
            ("neutral-identity-right", f(a, z3.IntVal(C03.N)) == a),
            ("monotone", z3.Implies(z3.And(leq(a, a2), leq(b, b2)), leq(f(a, b), f(a2, b2)))),
        ):
            res, model, dt = pyz3.check(d + [z3.Not(claim)])
            run.counters["smt_queries"] += 1
            run.counters["smt_time_s"] += dt
            full = f"{name}:{law}"
            if res == "unsat":
                run.ob(full, "z3", HELD, time_s=round(dt, 4))
            elif res == "sat":
                vals = {str(x): model[x].as_long() for x in model.decls() if str(x) in ("a", "b", "a2", "b2")}
                ok, detail = C03.replay_law(real_ops, dom, full, vals)
                if ok:
                    run.ob(full, "z3", VIOLATED, detail=detail)
                    run.violation(full, f"{full}: {detail}", {"law": full}, {"kind": "C03-law", "property": "C03", "law": full, "operands": vals})
                else:
                    run.ob(full, "z3", ERROR, detail="model did not reproduce")
            else:
                run.ob(full, "z3", INCONCLUSIVE, detail=res)


def main(run: Run) -> int:
    from ahbicht.expressions import requirement_constraint_expression_evaluation as m
    from vf.harness import meta_glue

    run.encodes(m.RequirementConstraintTransformer, m.requirement_constraint_evaluation)
    algebra(run)
    feats = lambda r, rep: {"part": r["fn"], "mode": "C05"}  # noqa: E731
    alljobs = []
    for j in glue.step_jobs("C05", fns=("step", "refine")):
        alljobs.append(dict(j, module="vf.harness.rc_step", bound="all 21x21 abstract operand pairs of this callback partition (refine: x both resolutions of each UNKNOWN operand)"))
    thorough = run.tier == "thorough"
    configs = [(1, 6, 0), (2, 4, 1), (3, 1, 0)] if thorough else [(1, 3, 0), (2, 2, 1)]  # (2, 5, 1) + (3, 2, 0) did not finish within 40 min
    total = 0
    for nl, nk, at in configs:
        g = {"NLEAVES": nl, "NKINDS": nk, "ATTACH": at}
        for k, v in g.items():
            setattr(meta_glue, k, v)
        n = len(meta_glue.cases())
        total += n
        for lo in range(0, n, 30):
            alljobs.append({"fn": "meta", "module": "vf.harness.meta_glue", "globals": dict(g, LO=lo, HI=min(n, lo + 30)), "timeout": 600, "bound": "metamorphic cases of this partition"})
    meta_glue.P_ALPHAS = 27 if thorough else 8
    npc = len(meta_glue.prec_cases())
    for lo in range(0, npc, 40):
        alljobs.append({"fn": "prec", "module": "vf.harness.meta_glue", "globals": {"P_ALPHAS": meta_glue.P_ALPHAS, "LO": lo, "HI": min(npc, lo + 40)}, "timeout": 600, "bound": "bracket-redundancy cases of this partition"})
    run.bounds["redundant_brackets"] = f"{npc} cases: every 3-operand expression over U/O/X (both groupings), rendered with the minimal brackets of the documented precedence and {'every mix of letter/symbol/lower-case spellings' if thorough else 'the letter/symbol spelling mixes'}, vs. fully bracketed; {'all 27' if thorough else 'all 8 FULFILLED/UNFULFILLED'} assignments"
    alljobs.sort(key=lambda j: -j.get("timeout", 0))
    for r, j in zip(xh.run_jobs(run, "vf.harness.rc_step", alljobs), alljobs):
        xh.default_verdict(run, r, feats, bound=j["bound"])
    run.bounds["metamorphic"] = f"{total} cases = valid base expressions {configs} (leaves, leaf kinds, attach) x every applicable transformation and position (and-hint left/right on the whole expression and on every U/O/X operand, attach-FC to every sub-expression with a requirement constraint, redundant brackets at every node, operand swap at every U/O/X) x all assignments; refinement of up to two UNKNOWN keys symbolic"
    run.bounds["step"] = "4 callbacks x 21 x 21 abstract operand states, both argument orders; refinement lemma over both resolutions"
    common_assumptions(run)
    run.sample({"metamorphic": "'[1]U[2]' vs '[1] U [2][999]' under every assignment"})
    run.sample({"refine": "or_composition(rc:UNKNOWN, rc:FULFILLED)=FULFILLED stays FULFILLED for both resolutions"})
    return run.finish(
        "model_checking",
        "Each transformation is reduced to a lemma on the real code: algebra (z3 on the PZ terms), step lemmas on the real callbacks for every abstract "
        "operand pair, and a metamorphic exploration through the real requirement_constraint_evaluation within the stated bound.",
    )
