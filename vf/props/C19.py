"""C19 — JSON serialisation round-trips trees, evaluation inputs and evaluation results (XH, symbolic field values)."""
from __future__ import annotations

from vf import xh
from vf.common import Run
from vf.props.C04 import common_assumptions


def main(run: Run) -> int:
    from ahbicht.json_serialization import tree_schema
    from ahbicht.models import categorized_key_extract, condition_nodes, content_evaluation_result, evaluation_results
    from vf.harness import json_harness as H

    run.encodes(tree_schema.TreeSchema, tree_schema._TokenOrTreeSchema, tree_schema.TokenSchema, evaluation_results.RequirementConstraintEvaluationResultSchema, evaluation_results.FormatConstraintEvaluationResultSchema, evaluation_results.AhbExpressionEvaluationResultSchema, condition_nodes.EvaluatedFormatConstraintSchema, categorized_key_extract.CategorizedKeyExtractSchema, content_evaluation_result.ContentEvaluationResultSchema)
    jobs = [
        {"fn": "rt_rcer", "globals": {}, "timeout": 300, "bound": "outcome/conditional symbolic Optional[bool] (both undetermined or both determined), expression and hints symbolic Optional[str]"},
        {"fn": "rt_fcer", "globals": {}, "timeout": 300, "bound": "FormatConstraintEvaluationResult and EvaluatedFormatConstraint: symbolic bool, symbolic Optional[str]"},
        {"fn": "rt_ahb", "globals": {}, "timeout": 600, "bound": "all six indicators x symbolic outcome/hints/format result"},
        {"fn": "rt_cke", "globals": {}, "timeout": 300, "bound": f"{len(H.cke_cases())} extracts: from key lists and trees, sanitized and not (unsorted, duplicates), sum of extracts"},
    ]
    for a in range(4):
        for b in range(3):
            jobs.append({"fn": "rt_cer", "globals": {"FIXCER": (a, b)}, "timeout": 900, "bound": "requirement states x symbolic hint / format result / message x packages {absent, empty, one} x id {absent, uuid}"})
    n = len(H.tree_cases())
    for lo in range(0, n, 3):
        jobs.append({"fn": "rt_tree", "globals": {"LO": lo, "HI": min(n, lo + 3)}, "timeout": 900, "bound": "trees of this partition (parsers / resolver with package and time-condition expansion); evaluation of original vs round-tripped tree under all states of 2 requirement keys"})
    jobs.sort(key=lambda j: -j["timeout"])
    feats = lambda r, rep: {"part": r["fn"], "null_outcome_not_loadable": r["fn"] in ("rt_rcer", "rt_ahb") and "may not be null" in (rep.get("what") or "")}  # noqa: E731
    for r, j in zip(xh.run_jobs(run, "vf.harness.json_harness", jobs), jobs):
        xh.default_verdict(run, r, feats, bound=j["bound"])
    run.bounds["trees"] = f"{n} trees: assembled AHB expressions (C09's case list, every 3rd), resolved expressions (C10's case list, every 4th), multi-part AHB expressions, condition expressions with packages/time conditions"
    common_assumptions(run)
    run.assume("the JSON text step (json.dumps / json.loads, C code) runs untraced on the realised dict; marshmallow dump and load are traced")
    run.outside += ["instances ahbicht itself cannot produce (e.g. outcome undetermined but conditional determined)", "validation result schemas (not listed in the statement)"]
    run.sample({"round trip": "RequirementConstraintEvaluationResult(None, None, fce, hints) -> JSON -> equal object"})
    return run.finish(
        "model_checking",
        "CrossHair confirms dump->JSON->load == original for symbolic field values of every listed class and for every tree of the bounded case lists (structure and evaluation result).",
    )
