"""
C03 — four-valued logic laws.  Engine: PZ (source of __and__/__or__/__xor__ -> z3), one query per law.
Finite domain, covered completely.  Cross-check: XH (CrossHair) on the real enum methods.
"""

from __future__ import annotations

import re
import time

import z3

from vf import pyz3
from vf.common import ERROR, HELD, INCONCLUSIVE, REPO, VIOLATED, Run

NAMES = ["FULFILLED", "UNFULFILLED", "UNKNOWN", "NEUTRAL"]
F, U, K, N = 0, 1, 2, 3  # indices
INVALID = -1


def build_ops(run: Run):
    from ahbicht.models.condition_nodes import ConditionFulfilledValue as CFV

    dom = [CFV[n] for n in NAMES]
    a, b = z3.Int("pa"), z3.Int("pb")
    ops = {}
    stats = {}
    for opname in ("__and__", "__or__", "__xor__"):
        fn = getattr(CFV, opname)
        run.encodes(fn)
        interp = pyz3.Interp()
        fa, fb = pyz3.FD(dom, a), pyz3.FD(dom, b)
        interp.base = [fa.constraint(), fb.constraint()]
        paths = interp.explore(lambda fn=fn, fa=fa, fb=fb, interp=interp: interp.call_function(fn, [fa, fb], {}))

        def encode(outcome):
            kind, val = outcome
            if kind == "raise":
                return z3.IntVal(INVALID)
            if isinstance(val, pyz3.FD):
                return pyz3.fd_index_term(val, dom, INVALID)
            for i, m in enumerate(dom):
                if val is m:
                    return z3.IntVal(i)
            return z3.IntVal(INVALID)  # None / foreign value: not a member of the enum

        term = pyz3.outcome_term(paths, encode, z3.IntVal(INVALID))
        ops[opname] = (term, paths)
        stats[opname] = {"paths": len(paths), "queries": interp.queries}
        run.counters["smt_queries"] += interp.queries
        run.counters["smt_time_s"] += interp.solver_time

    def mk(opname):
        term = ops[opname][0]

        def f(x, y):
            return z3.substitute(term, (a, x), (b, y))

        return f

    return dom, {k: mk(k) for k in ops}, {k: ops[k][1] for k in ops}, stats


def parse_readme_tables():
    text = (REPO / "README.rst").read_text(encoding="utf-8")
    rows = []
    sections = {"and_composition": "__and__", "or_composition": "__or__", "xor_composition": "__xor__"}
    tok = {"Neutral": N, "True": F, "False": U, "Unknown": K}
    for sec, op in sections.items():
        m = re.search(r"``" + sec + r"``\n\^+\n(.*?)(?=\n``\w+``\n\^+|\nLink to|\Z)", text, re.S)
        if not m:
            continue
        for line in m.group(1).splitlines():
            cells = [c.strip() for c in re.split(r"\||\s{2,}", line.strip()) if c.strip()]
            if len(cells) < 3 or cells[0] not in tok or cells[1] not in tok:
                # also handle the simple-table rows "Neutral True    True"
                parts = line.split()
                if len(parts) == 3 and all(p in tok for p in parts):
                    rows.append((op, tok[parts[0]], tok[parts[1]], tok[parts[2]], line.strip()))
                continue
            if cells[2] in tok:
                rows.append((op, tok[cells[0]], tok[cells[1]], tok[cells[2]], line.strip()))
    return rows


def main(run: Run) -> int:
    from ahbicht.models.condition_nodes import ConditionFulfilledValue as CFV

    run.engines["PZ"] = f"pyz3 (ast->z3), z3 {z3.get_version_string()}"
    try:
        dom, op, paths, stats = build_ops(run)
    except pyz3.Unsupported as u:
        run.ob("translate", "PZ", INCONCLUSIVE, detail=f"source outside PZ subset ({u}); falling back to CrossHair on the real methods")
        return xh_fallback(run)
    run.bounds["domain"] = "all 4^2 pairs and 4^3 triples of {FULFILLED, UNFULFILLED, UNKNOWN, NEUTRAL} per operator (complete)"
    run.bounds["paths_per_operator"] = stats

    # ---- translation validation (DESIGN 4.4): every path's witness + all 16 pairs against the real methods
    a, b, c = z3.Int("a"), z3.Int("b"), z3.Int("c")
    dom_ab = [a >= 0, a < 4, b >= 0, b < 4]
    dom_abc = dom_ab + [c >= 0, c < 4]
    tv_fail = 0
    for opname in op:
        real = getattr(CFV, opname)
        for i in range(4):
            for j in range(4):
                r, m, dt = pyz3.check([a == i, b == j, z3.Int("r") == op[opname](a, b)])
                run.counters["smt_queries"] += 1
                run.counters["smt_time_s"] += dt
                enc = m[z3.Int("r")].as_long() if m is not None else None
                try:
                    rv = real(dom[i], dom[j])
                    realv = dom.index(rv) if rv in dom and isinstance(rv, CFV) else INVALID
                except Exception:  # pylint:disable=broad-except
                    realv = INVALID
                run.counters["replayed_witnesses"] += 1
                if enc != realv:
                    tv_fail += 1
                    run.error(f"translation validation: {opname}({NAMES[i]},{NAMES[j]}) encoded={enc} real={realv}")
    run.ob("translation-validation(16 pairs x 3 ops vs real methods)", "PZ", HELD if tv_fail == 0 else ERROR, detail=f"{tv_fail} mismatches")
    if tv_fail:
        return run.finish("other", "translation validation failed", False)

    lemmas = []  # (name, assumptions, claim)  -> query: assumptions ∧ ¬claim must be unsat

    def definite(x):
        return z3.Or(x == F, x == U)

    for opname, boolop in (("__and__", z3.And), ("__or__", z3.Or), ("__xor__", z3.Xor)):
        f = op[opname]
        lemmas.append((f"{opname}:total", dom_ab, z3.And(f(a, b) >= 0, f(a, b) < 4)))
        lemmas.append((f"{opname}:commutative", dom_ab, f(a, b) == f(b, a)))
        lemmas.append((f"{opname}:associative", dom_abc, f(f(a, b), c) == f(a, f(b, c))))
        lemmas.append((f"{opname}:neutral-identity-right", dom_ab, f(a, z3.IntVal(N)) == a))
        lemmas.append((f"{opname}:neutral-identity-left", dom_ab, f(z3.IntVal(N), a) == a))
        lemmas.append(
            (
                f"{opname}:boolean-on-definite",
                dom_ab + [definite(a), definite(b)],
                z3.And(definite(f(a, b)), (f(a, b) == F) == boolop(a == F, b == F)),
            )
        )
        # closure: result NEUTRAL iff both NEUTRAL
        lemmas.append((f"{opname}:closure-neutral", dom_ab, (f(a, b) == N) == z3.And(a == N, b == N)))
        # UNKNOWN soundness: definite result with UNKNOWN operands -> every replacement gives the same value
        a2, b2 = z3.Int("a2"), z3.Int("b2")
        refines = lambda x, x2: z3.If(x == K, definite(x2), x2 == x)  # noqa: E731
        lemmas.append(
            (
                f"{opname}:unknown-sound",
                dom_ab + [refines(a, a2), refines(b, b2), f(a, b) != K],
                f(a2, b2) == f(a, b),
            )
        )
        # tightness: result UNKNOWN -> two replacements disagree   (∃ encoded by finite expansion)
        reps = lambda x: [(z3.If(x == K, z3.IntVal(v), x)) for v in (F, U)]  # noqa: E731
        vals = [f(x2, y2) for x2 in reps(a) for y2 in reps(b)]
        disagree = z3.Or(*[vals[i] != vals[j] for i in range(len(vals)) for j in range(i + 1, len(vals))])
        lemmas.append((f"{opname}:unknown-tight", dom_ab + [f(a, b) == K], disagree))
        # monotone in the information order UNKNOWN ⊑ F,U  (used by C05)
        leq = lambda x, y: z3.Or(x == y, x == K)  # noqa: E731
        lemmas.append((f"{opname}:monotone", dom_ab + [a2 >= 0, a2 < 4, b2 >= 0, b2 < 4, leq(a, a2), leq(b, b2)], leq(f(a, b), f(a2, b2))))

    rows = parse_readme_tables()
    run.bounds["readme_rows_with_value"] = len(rows)
    if len(rows) < 10:
        run.ob("readme-tables-parsed", "PZ", ERROR, detail=f"only {len(rows)} valued rows found in README.rst")
    for opname, x, y, z, line in rows:
        lemmas.append((f"{opname}:README[{line}]", [], z3.And(op[opname](z3.IntVal(x), z3.IntVal(y)) == z, op[opname](z3.IntVal(y), z3.IntVal(x)) == z)))

    real_ops = {"__and__": CFV.__and__, "__or__": CFV.__or__, "__xor__": CFV.__xor__}
    for name, assumptions, claim in lemmas:
        res, model, dt = pyz3.check(list(assumptions) + [z3.Not(claim)])
        run.counters["smt_queries"] += 1
        run.counters["smt_time_s"] += dt
        # vacuity twin: assumptions alone must be satisfiable
        tw, _, dt2 = pyz3.check(list(assumptions))
        run.counters["smt_queries"] += 1
        run.counters["smt_time_s"] += dt2
        if tw != "sat":
            run.ob(name, "z3", ERROR, detail=f"vacuity twin {tw}")
            continue
        if res == "unsat":
            run.ob(name, "z3", HELD, time_s=round(dt, 4))
        elif res == "sat":
            vals = {str(d): model[d].as_long() for d in model.decls() if str(d) in ("a", "b", "c", "a2", "b2")}
            opname = name.split(":")[0]
            named = {k: NAMES[v] if 0 <= v < 4 else v for k, v in vals.items()}
            # replay on the real methods: re-evaluate the very same law natively
            reproduced, detail = replay_law(real_ops, dom, name, vals)
            if reproduced:
                run.ob(name, "z3", VIOLATED, detail=detail)
                run.violation(name, f"law {name} fails for {named}: {detail}", {"law": name.split("[")[0], "operands": named}, {"kind": "C03-law", "law": name, "operands": vals})
            else:
                run.ob(name, "z3", ERROR, detail=f"counterexample {named} did not reproduce on the real methods ({detail})")
        else:
            run.ob(name, "z3", INCONCLUSIVE, detail=res)
    run.sample({"law": "__and__:associative", "query": "a,b,c in [0,4) ∧ and(and(a,b),c) ≠ and(a,and(b,c))", "answer": "unsat"})
    run.sample({"law": "README row", "example": rows[0][4] if rows else None})

    xh_crosscheck(run)
    run.assume(
        "PZ translation of __and__/__or__/__xor__ is faithful (validated on all 16 pairs per operator against the real methods on every run)",
        "README.rst truth tables are the documentation of record; rows 'does not make sense' belong to C06",
    )
    run.outside.append("nothing inside the quantifier: the domain is finite and covered completely")
    return run.finish(
        "other",
        "Finite domain decided completely: each law is one z3 query (negation unsat) over the If-chain PZ extracts from the "
        "current source of ConditionFulfilledValue.__and__/__or__/__xor__; every lemma has a sat vacuity twin; the encoding is "
        "validated against the real methods on all 16 pairs per operator; CrossHair cross-checks the laws on the real methods.",
        exhaustive=True,
    )


def replay_law(real_ops, dom, name, vals):
    """re-evaluate the violated law natively on the real enum methods"""
    opname = name.split(":")[0]
    law = name.split(":")[1].split("[")[0]
    f = lambda x, y: real_ops[opname](x, y)  # noqa: E731
    g = lambda k: dom[vals[k]] if k in vals and 0 <= vals[k] < 4 else None  # noqa: E731
    try:
        from ahbicht.models.condition_nodes import ConditionFulfilledValue as CFV

        A, B, C = g("a"), g("b"), g("c")
        if law == "total":
            r = f(A, B)
            return (not isinstance(r, CFV)), f"{opname}({A},{B}) = {r!r}"
        if law == "commutative":
            return f(A, B) != f(B, A), f"{f(A, B)} vs {f(B, A)}"
        if law == "associative":
            return f(f(A, B), C) != f(A, f(B, C)), f"({A}{opname}{B}){opname}{C}={f(f(A, B), C)} vs {f(A, f(B, C))}"
        if law.startswith("neutral-identity"):
            return (f(A, CFV.NEUTRAL) != A or f(CFV.NEUTRAL, A) != A), f"{f(A, CFV.NEUTRAL)} / {f(CFV.NEUTRAL, A)} for {A}"
        if law == "boolean-on-definite":
            py = {"__and__": lambda p, q: p and q, "__or__": lambda p, q: p or q, "__xor__": lambda p, q: p != q}[opname]
            exp = CFV.FULFILLED if py(A is CFV.FULFILLED, B is CFV.FULFILLED) else CFV.UNFULFILLED
            return f(A, B) != exp, f"{opname}({A},{B})={f(A, B)} expected {exp}"
        if law == "closure-neutral":
            return (f(A, B) is CFV.NEUTRAL) != (A is CFV.NEUTRAL and B is CFV.NEUTRAL), f"{opname}({A},{B})={f(A, B)}"
        if law == "unknown-sound":
            A2, B2 = g("a2"), g("b2")
            return f(A2, B2) != f(A, B), f"{opname}({A},{B})={f(A, B)} but refinement ({A2},{B2}) gives {f(A2, B2)}"
        if law == "unknown-tight":
            reps = lambda x: [CFV.FULFILLED, CFV.UNFULFILLED] if x is CFV.UNKNOWN else [x]  # noqa: E731
            vals_ = {f(x, y) for x in reps(A) for y in reps(B)}
            return (f(A, B) is CFV.UNKNOWN and len(vals_) == 1), f"{opname}({A},{B})=UNKNOWN although all replacements give {vals_}"
        if law == "monotone":
            A2, B2 = g("a2"), g("b2")
            leq = lambda x, y: x == y or x is CFV.UNKNOWN  # noqa: E731
            return not leq(f(A, B), f(A2, B2)), f"{opname}({A},{B})={f(A, B)} not ⊑ {opname}({A2},{B2})={f(A2, B2)}"
        if law == "README":
            m = re.search(r"README\[(.*)\]", name)
            cells = [c for c in re.split(r"[|\s]+", m.group(1)) if c]
            tok = {"Neutral": CFV.NEUTRAL, "True": CFV.FULFILLED, "False": CFV.UNFULFILLED, "Unknown": CFV.UNKNOWN}
            x, y, z = tok[cells[0]], tok[cells[1]], tok[cells[2]]
            return (f(x, y) != z or f(y, x) != z), f"{opname}({x},{y})={f(x, y)}, {opname}({y},{x})={f(y, x)}; README says {z}"
    except Exception as e:  # pylint:disable=broad-except
        return True, f"real method raised {type(e).__name__}: {e}"
    return False, "unknown law"


def xh_crosscheck(run: Run):
    from vf import xh

    jobs = [{"fn": n, "timeout": 60} for n in ("assoc", "comm", "neutral_id", "boolean", "closure", "sound", "monotone")]
    results = xh.run_jobs(run, "vf.harness.C03_laws", jobs)
    for r in results:
        xh.default_verdict(run, r, violation_features=lambda r, rep: {"law": r["fn"], "engine": "XH"})


def xh_fallback(run: Run) -> int:
    xh_crosscheck(run)
    return run.finish("model_checking", "PZ could not translate the source; CrossHair on the real methods only", False)
