"""
C01 — grouping by documented precedence.
  GS: CYK + label model of the LIVE grammar over a symbolic token sequence, one z3 query (every span of every
      sequence up to N tokens) under Lark's resolution contract; contract validated on solver-chosen sequences through
      the real parser; side lemmas on the live terminals/rules.
  XH: selector-built strings through the real parser (concretised), grouping compared with an independent
      precedence parser.
"""

from __future__ import annotations

import re
import time
from typing import List

import z3

from vf import grammar_smt as gs
from vf import sre2z3, xh
from vf.common import ERROR, HELD, INCONCLUSIVE, VIOLATED, Run

OR_, XOR_, AND_, TA_, ATOM_ = 0, 1, 2, 3, 4
CLASS_NAME = {OR_: "or_composition", XOR_: "xor_composition", AND_: "and_composition", TA_: "then_also_composition", ATOM_: "atom"}
SAMPLES = {
    "OR": ["O", "o", "∨"],
    "XOR": ["X", "x", "⊻"],
    "AND": ["U", "u", "∧"],
    "LPAR": ["("],
    "RPAR": [")"],
    "LSQB": ["["],
    "RSQB": ["]"],
    "CKEY": ["1", "42", "907"],
    "PKEY": ["3P", "12P"],
    "REP": ["1..5", "0..12"],
    "TIME": ["UB1", "UB2", "UB3"],
}


def classify_terminals(g: gs.Grammar):
    """terminal name -> (class, lexemes it accepts among the documented spellings)"""
    out = {}
    for t in g.terms:
        flags = 0
        for f in t.pattern.flags:
            flags |= {"i": re.IGNORECASE}.get(f, 0)
        rx = re.compile(t.pattern.to_regexp(), flags)
        hits = {c: [s for s in ss if rx.fullmatch(s)] for c, ss in SAMPLES.items()}
        hits = {c: v for c, v in hits.items() if v}
        if len(hits) != 1:
            raise gs.Unsupported(f"terminal {t.name} ({t.pattern.to_regexp()!r}) matches documented spellings of {sorted(hits)}")
        (c, lex), = hits.items()
        out[t.name] = (c, lex)
    return out


# --------------------------------------------------------------------------- independent reference precedence parser
def tokenize(text: str) -> List[str]:
    toks = re.findall(r"\[[^\]]*\]|[()]|[OoXxUu∨⊻∧]", text)
    return toks


def ref_parse(tokens: List[str]):
    """precedence climbing: brackets > juxtaposition > AND > XOR > OR ; returns canonical nested tuples with runs of the
    same operator flattened: ('or'|'xor'|'and'|'ta', [operands...]) | ('k', text)"""
    pos = [0]

    def peek():
        return tokens[pos[0]] if pos[0] < len(tokens) else None

    def cls(tok):
        if tok in ("O", "o", "∨"):
            return "or"
        if tok in ("X", "x", "⊻"):
            return "xor"
        if tok in ("U", "u", "∧"):
            return "and"
        return None

    def atom():
        t = peek()
        if t == "(":
            pos[0] += 1
            e = level(0)
            if peek() != ")":
                raise ValueError("unbalanced")
            pos[0] += 1
            return e
        if t is not None and t.startswith("["):
            pos[0] += 1
            return ("k", re.sub(r"\s", "", t))
        raise ValueError(f"unexpected {t}")

    def juxt():
        items = [atom()]
        while peek() is not None and (peek() == "(" or peek().startswith("[")):
            items.append(atom())
        return items[0] if len(items) == 1 else flat("ta", items)

    order = ["or", "xor", "and"]

    def level(l):
        if l == 3:
            return juxt()
        items = [level(l + 1)]
        while cls(peek()) == order[l]:
            pos[0] += 1
            items.append(level(l + 1))
        return items[0] if len(items) == 1 else flat(order[l], items)

    def flat(op, items):
        out = []
        for it in items:
            if it[0] == op:
                out.extend(it[1])
            else:
                out.append(it)
        return (op, out)

    e = level(0)
    if pos[0] != len(tokens):
        raise ValueError("trailing tokens")
    return e


def canon_tree(tree):
    """canonical form of a real Lark tree (same shape as ref_parse)"""
    data = str(tree.data)
    m = {"or_composition": "or", "xor_composition": "xor", "and_composition": "and", "then_also_composition": "ta"}
    if data in m:
        op = m[data]
        out = []
        for c in tree.children:
            cc = canon_tree(c)
            if cc[0] == op:
                out.extend(cc[1])
            else:
                out.append(cc)
        return (op, out)
    toks = "".join(str(t.value) for t in tree.children)
    return ("k", f"[{toks}]")


def real_vs_ref(text: str):
    """(agree, real_canonical, ref_canonical)"""
    from vf import env

    tree = env.real_parser("condition").parse(text)
    real = canon_tree(tree)
    ref = ref_parse(tokenize(text))
    return real == ref, real, ref


# --------------------------------------------------------------------------- GS part
def render(tokens: List[str], cls, variant: int = 0) -> str:
    out = []
    counters = {"CKEY": 0}
    for i, t in enumerate(tokens):
        c, lex = cls[t]
        if c == "CKEY":
            counters["CKEY"] += 1
            s = str(counters["CKEY"] if variant % 2 == 0 else 900 + counters["CKEY"])
        else:
            s = lex[(i + variant) % len(lex)]
        out.append(s)
    sep = ["", " ", "\t", "  "][variant % 4]
    return sep.join(out)


def gs_part(run: Run, N: int, nvalidate: int):
    from ahbicht.expressions import condition_expression_parser as cep
    from vf import env

    lark_obj = env.real_parser("condition")
    run.encodes(cep)
    g = gs.Grammar(lark_obj)
    cls = classify_terminals(g)
    t0 = time.time()
    T = gs.Tables(g, N)
    build_s = time.time() - t0
    cid = {c: [g.tindex[t] for t in g.tindex if cls[t][0] == c] for c in SAMPLES}

    def tok_in(k, c):
        ids = cid[c]
        return z3.Or(*[T.w[k] == x for x in ids]) if ids else z3.BoolVal(False)

    # spec side: bracket depth by prefix sums, connectives at relative depth
    dep = [z3.IntVal(0)]
    for k in range(N):
        dep.append(dep[-1] + z3.If(tok_in(k, "LPAR"), 1, z3.If(tok_in(k, "RPAR"), -1, 0)))
    depv = [z3.Int(f"dep{k}") for k in range(N + 1)]
    defs = [depv[k] == dep_k for k, dep_k in enumerate([z3.IntVal(0)] + [depv[k] + z3.If(tok_in(k, "LPAR"), 1, z3.If(tok_in(k, "RPAR"), -1, 0)) for k in range(N)])]
    conn = {}  # class -> list over positions k of Bool "connective of that class sits at k"
    conn[OR_] = [tok_in(k, "OR") for k in range(N)]
    conn[XOR_] = [tok_in(k, "XOR") for k in range(N)]
    conn[AND_] = [tok_in(k, "AND") for k in range(N)]
    conn[TA_] = [z3.BoolVal(False)] + [z3.And(z3.Or(tok_in(k - 1, "RSQB"), tok_in(k - 1, "RPAR")), z3.Or(tok_in(k, "LSQB"), tok_in(k, "LPAR"))) for k in range(1, N)]
    maxd = N // 2
    label_class = {}
    for name in list(g.labels):
        pass

    def lab2class(term):
        ids = {g.label_id("or_composition"): OR_, g.label_id("xor_composition"): XOR_, g.label_id("and_composition"): AND_, g.label_id("then_also_composition"): TA_}
        out = z3.IntVal(ATOM_)
        for lid, c in ids.items():
            out = z3.If(term == lid, z3.IntVal(c), out)
        return out

    bad_spans = []
    for (a, i, j), d in T.D.items():
        if a != g.start or z3.is_false(d):
            continue
        # connective position of class c at relative depth dd inside (i, j): k in (i, j) with dep[k] - dep[i] == dd
        spec = z3.IntVal(ATOM_)
        for dd in reversed(range(0, maxd + 1)):
            at = {c: z3.Or(*[z3.And(conn[c][k], depv[k] - depv[i] == dd) for k in range(i + 1, j)]) if j - i > 1 else z3.BoolVal(False) for c in (OR_, XOR_, AND_, TA_)}
            level = z3.If(at[OR_], z3.IntVal(OR_), z3.If(at[XOR_], z3.IntVal(XOR_), z3.If(at[AND_], z3.IntVal(AND_), z3.IntVal(TA_))))
            anyc = z3.Or(at[OR_], at[XOR_], at[AND_], at[TA_])
            spec = z3.If(anyc, level, spec)
        sv = z3.Int(f"spec_{i}_{j}")
        defs.append(sv == spec)
        bad_spans.append((i, j, z3.And(d, lab2class(T.Label[(a, i, j)]) != sv)))
    run.bounds["GS_tokens"] = f"all sequences of <= {N} tokens over the {len(g.terms)} terminal classes of the live grammar ({len(g.terms)}^{N} of maximal length), every span of each"
    base = T.dom + T.defs + defs
    run.counters["smt_time_s"] += build_s
    name = f"precedence lemma: for every span derivable as an expression the root chosen under Lark's resolution contract is the weakest-binding connective at minimal bracket depth (N={N})"
    res, model, dt, solver = gs.solve(base + [z3.Or(*[b for _, _, b in bad_spans])], timeout_ms=1500000 if run.tier == "thorough" else 400000, seed=run.seed)
    run.counters["smt_queries"] += 1
    run.counters["smt_time_s"] += dt
    # vacuity twin: some span with two different connective classes is derivable
    tw, twm, dt2, _ = gs.solve(base + [T.in_language(), T.n >= min(N, 7), z3.Or(*[tok_in(k, "OR") for k in range(N)]), z3.Or(*[tok_in(k, "AND") for k in range(N)])], timeout_ms=60000)
    run.counters["smt_queries"] += 1
    run.counters["smt_time_s"] += dt2
    if tw != "sat":
        run.ob(name, "z3", ERROR, detail=f"vacuity twin {tw}: no mixed expression is derivable in the encoding")
    elif res == "unsat":
        run.ob(name, "z3", HELD, time_s=round(dt, 2), bound=run.bounds["GS_tokens"])
    elif res == "sat":
        hit = None
        for i, j, b in bad_spans:
            if z3.is_true(model.eval(b, model_completion=True)):
                hit = (i, j)
                break
        toks = gs.model_tokens(model, T, N)[hit[0] : hit[1]]
        reproduced = None
        for variant in range(4):
            text = render(toks, cls, variant)
            try:
                agree, real, ref = real_vs_ref(text)
            except Exception as e:  # pylint:disable=broad-except
                reproduced = ("error", f"{text!r}: {type(e).__name__}: {e}")
                continue
            run.counters["replayed_witnesses"] += 1
            if not agree:
                reproduced = ("violation", text, real, ref)
                break
            reproduced = ("agree", text)
        if reproduced and reproduced[0] == "violation":
            _, text, real, ref = reproduced
            what = f"'{text}' is parsed as {real}, documented precedence gives {ref}"
            run.ob(name, "z3", VIOLATED, detail=what)
            run.violation(name, what, {"part": "GS-precedence"}, {"kind": "C01-text", "property": "C01", "text": text})
        else:
            run.ob(name, "z3", ERROR, detail=f"contract model predicts a wrong root for tokens {toks} but the real parser groups correctly ({reproduced}); the resolution-contract model does not fit this grammar")
    else:
        run.ob(name, "z3", INCONCLUSIVE, detail=f"{res} after {dt:.0f}s")

    # ---- contract validation: solver-chosen diverse members through the real parser
    s = z3.Solver()
    s.set("timeout", 20000)
    s.set("random_seed", run.seed)
    for a_ in base:
        s.add(a_)
    s.add(T.in_language())
    s.add(T.n >= min(N, 5))
    mism = 0
    done = 0
    kinds = ["OR", "XOR", "AND"]
    for it in range(nvalidate):
        s.push()
        # demand a mix: two different operator classes somewhere (rotating), sometimes juxtaposition or brackets
        c1, c2 = kinds[it % 3], kinds[(it + 1 + it // 3) % 3]
        s.add(z3.Or(*[tok_in(k, c1) for k in range(N)]))
        if c1 != c2:
            s.add(z3.Or(*[tok_in(k, c2) for k in range(N)]))
        if it % 4 == 1:
            s.add(z3.Or(*[tok_in(k, "LPAR") for k in range(N)]))
        if it % 4 == 2:
            s.add(z3.Or(*conn[TA_]))
        s.add(T.n >= 5 + (it % max(1, N - 5)))
        r = s.check()
        if str(r) != "sat":
            s.pop()
            continue
        m = s.model()
        n = m.eval(T.n, model_completion=True).as_long()
        toks = gs.model_tokens(m, T, n)
        pred = m.eval(lab2class(T.Label[(g.start, 0, n)]), model_completion=True).as_long()
        s.pop()
        s.add(z3.Or(*[T.w[k] != m.eval(T.w[k], model_completion=True) for k in range(n)] + [T.n != n]))
        text = render(toks, cls, it)
        run.counters["replayed_witnesses"] += 1
        done += 1
        try:
            tree = env.real_parser("condition").parse(text)
            agree, real, ref = real_vs_ref(text)
        except Exception as e:  # pylint:disable=broad-except
            mism += 1
            run.error(f"contract validation: '{text}' (tokens {toks}) in the encoded language but the real parser raised {type(e).__name__}")
            continue
        rootmap = {"or_composition": OR_, "xor_composition": XOR_, "and_composition": AND_, "then_also_composition": TA_}
        realroot = rootmap.get(str(tree.data), ATOM_)
        if realroot != pred:
            mism += 1
            if not agree:
                what = f"'{text}' is parsed as {real}, documented precedence gives {ref}"
                run.violation("contract validation", what, {"part": "GS-precedence"}, {"kind": "C01-text", "property": "C01", "text": text})
            else:
                run.error(f"contract validation: model predicts root {CLASS_NAME[pred]} for '{text}', real parser gives {tree.data}")
        elif not agree:
            what = f"'{text}' is parsed as {real}, documented precedence gives {ref}"
            run.violation("contract validation", what, {"part": "GS-precedence"}, {"kind": "C01-text", "property": "C01", "text": text})
            mism += 1
        if done <= 3:
            run.sample({"witness": text, "real_root": str(tree.data), "model_root": CLASS_NAME[pred]})
    run.ob(f"resolution-contract validation: {done} solver-chosen mixed sequences parsed by the real parser, root and full grouping as predicted", "replay", HELD if mism == 0 and done >= min(20, nvalidate) else (VIOLATED if run.violations else ERROR), detail=f"{mism} mismatches of {done}")
    side_lemmas(run, g, cls, lark_obj)


def side_lemmas(run: Run, g: gs.Grammar, cls, lark_obj):
    # operator spellings: letter terminals are case-insensitive single letters, symbol terminals the three symbols
    want = {"OR": "[Oo]|∨", "XOR": "[Xx]|⊻", "AND": "[Uu]|∧"}
    for c, pat in want.items():
        terms = [t for t in g.terms if cls[t.name][0] == c]
        try:
            live = z3.Union(*[sre2z3.lark_terminal_re(t) for t in terms]) if len(terms) > 1 else sre2z3.lark_terminal_re(terms[0])
            verdict, wit, dt = sre2z3.re_equal(live, sre2z3.to_z3(pat))
        except (sre2z3.Unsupported, IndexError) as u:
            run.ob(f"spellings of {c}", "z3-re", INCONCLUSIVE, detail=str(u))
            continue
        run.counters["smt_queries"] += 1
        run.counters["smt_time_s"] += dt
        if verdict == "equal":
            run.ob(f"terminals of class {c} accept exactly the documented spellings {pat} (letter in either case, MaKo2022 symbol)", "z3-re", HELD, time_s=round(dt, 3))
        elif verdict == "differ":
            w = sre2z3.unescape_z3(wit)
            run.ob(f"spellings of {c}", "z3-re", INCONCLUSIVE, detail=f"differs from the documented spellings on {w!r}; language consequences are decided by C02, grouping by the lemma above")
        else:
            run.ob(f"spellings of {c}", "z3-re", INCONCLUSIVE, detail="unknown")
    # whitespace: %ignore is WS and no other terminal can match a whitespace character
    ws = z3.Concat(z3.Full(z3.ReSort(z3.StringSort())), sre2z3._union(sre2z3._ch(c) for c in sre2z3.WS_CHARS), z3.Full(z3.ReSort(z3.StringSort())))
    bad = []
    for t in g.terms:
        try:
            s = z3.String("s")
            sol = z3.Solver()
            sol.set("timeout", 10000)
            sol.add(z3.InRe(s, sre2z3.lark_terminal_re(t)), z3.InRe(s, ws))
            r = sol.check()
            run.counters["smt_queries"] += 1
            if str(r) != "unsat":
                bad.append(t.name)
        except sre2z3.Unsupported:
            bad.append(t.name + "?")
    ign_ok = False
    ws_problem = None
    try:
        ign = [t for t in lark_obj.terminals if t.name in g.ignore]
        if len(ign) == 1:
            v, wit, _ = sre2z3.re_equal(sre2z3.lark_terminal_re(ign[0]), sre2z3.to_z3("[ \t\x0c\r\n]+"))
            ign_ok = v == "equal"
            if v == "differ":
                ws_problem = sre2z3.unescape_z3(wit)
    except sre2z3.Unsupported:
        pass
    # whatever the terminal lemma says, the documented whitespace characters are pushed through the real parser between all tokens
    from vf import env

    for wch, wname in ((" ", "blank"), ("\t", "tab"), ("\n", "LF"), ("\r\n", "CRLF"), ("\r", "CR"), ("\x0c", "form feed")):
        text = f"[1]{wch}U{wch}({wch}[2]{wch}O{wch}[{wch}3{wch}]{wch}){wch}[901]"
        run.counters["replayed_witnesses"] += 1
        try:
            agree, real, ref = real_vs_ref(text)
            problem = None if agree else f"parsed as {real}, documented precedence gives {ref}"
        except Exception as e:  # pylint:disable=broad-except
            problem = f"rejected with {type(e).__name__}"
        if problem:
            what = f"well-formed expression with {wname} between its tokens, {text!r}: {problem}"
            run.violation("whitespace between tokens", what, {"part": "whitespace", "char": wname}, {"kind": "C01-text", "property": "C01", "text": text})
    run.ob("whitespace cannot change the token sequence: %ignore is exactly WS=[ \\t\\f\\r\\n]+ and no other terminal matches a string containing whitespace; blank/tab/LF/CR/CRLF/FF between all tokens parse with the documented grouping", "z3-re+replay", (VIOLATED if any(v["name"] == "whitespace between tokens" for v in run.violations) else (HELD if not bad and ign_ok else INCONCLUSIVE)), detail=f"terminals that can contain whitespace: {bad}; ignore terminal equals WS: {ign_ok}{'' if ws_problem is None else f' (differs on {ws_problem!r})'}")
    # brackets vanish from the tree: ?brackets is expand1 and ( ) are filtered tokens
    br = [r for r in g.rules if any(s.is_term and cls[s.name][0] == "LPAR" for s in r.expansion)]
    ok = bool(br) and all(r.options.expand1 and not r.alias and all(getattr(s, "filter_out", False) for s in r.expansion if s.is_term) for r in br)
    run.ob("redundant brackets vanish from the tree: the bracket rule is inlined (expand1) and '(' ')' are filtered tokens", "static", HELD if ok else INCONCLUSIVE, detail="" if ok else "bracket rule is not an inlined rule with filtered parentheses; grouping with brackets is decided by the XH harness")


def main(run: Run) -> int:
    run.engines["GS"] = f"grammar-to-SMT (CYK + label model over symbolic token sequences), z3 {z3.get_version_string()}"
    N = 13 if run.tier == "quick" else 16
    try:
        gs_part(run, N, 60 if run.tier == "quick" else 300)
    except (gs.Unsupported, sre2z3.Unsupported) as u:
        run.ob("GS encoding of the live grammar", "GS", INCONCLUSIVE, detail=f"grammar outside the encodable subset ({u}); the XH harness on the real parser still runs")
    xh_part(run)
    run.assume(
        "Lark resolution contract (read off lark/parsers/earley_forest.py 1.2.2): for a span the applicable rule with the smallest rule.order becomes the root; the choice among split points of that rule is unspecified — validated on every run on solver-chosen sequences through the real parser",
        "token level: a well-formed string is the concatenation of lexemes of a token sequence of the grammar with optional whitespace between tokens (lexical lemmas: operator spellings, whitespace)",
    )
    run.outside += ["token sequences longer than N", "non-ASCII digits / case-folding code points outside ASCII", "the grouping inside a run of one and the same operator (unspecified by the statement)"]
    return run.finish(
        "model_checking",
        "One z3 query over ALL token sequences up to N tokens and all their spans decides that the live grammar, under Lark's ambiguity-resolution contract, "
        "puts the weakest-binding connective at the root of every (sub)expression; the contract is validated against the real parser on solver-chosen mixed "
        "sequences; CrossHair additionally drives selector-built strings through the real parser and compares the grouping with an independent precedence parser.",
    )


def xh_part(run: Run):
    from vf.harness import prec_parse

    prec_parse.MAXC = 3  # four connectives would need 5-leaf skeletons: 67 000 strings, beyond the budget (the grammar-level lemma covers them)
    n = len(prec_parse.cases())
    jobs = [{"fn": "parse_case", "globals": {"MAXC": prec_parse.MAXC, "LO": lo, "HI": min(n, lo + 60)}, "timeout": 300} for lo in range(0, n, 60)]
    for r in xh.run_jobs(run, "vf.harness.prec_parse", jobs):
        xh.default_verdict(run, r, lambda r, rep: {"part": "XH-parse"}, bound="selector-built strings of this partition through the real parser")
    run.bounds["XH_strings"] = f"{n} strings: every sequence of <= {prec_parse.MAXC} connectives over (O,∨,X,⊻,U,∧,juxtaposition) in every bracketing, keys/packages/time conditions as operands, 4 spelling/whitespace variants rotated"


def replay(p: dict) -> dict:
    if p.get("kind") == "C01-text":
        try:
            agree, real, ref = real_vs_ref(p["text"])
        except Exception as e:  # pylint:disable=broad-except
            return {"outcome": "fail", "what": f"{p['text']!r}: {type(e).__name__}: {e}"}
        return {"outcome": "pass" if agree else "fail", "what": f"'{p['text']}' parsed as {real}, documented precedence gives {ref}"}
    return {"outcome": "harness-error", "detail": "unknown kind"}
