"""C04 — requirement evaluation = documented compositional semantics.  XH step lemmas + XH+DetLoop glue."""
from __future__ import annotations

from vf import glue, xh
from vf.common import Run


def main(run: Run) -> int:
    from ahbicht.expressions import requirement_constraint_expression_evaluation as m

    run.encodes(m.RequirementConstraintTransformer, m.requirement_constraint_evaluation, m.evaluate_requirement_constraint_tree)
    feats = lambda r, rep: {"part": r["fn"], "mode": "C04"}  # noqa: E731
    res = xh.run_jobs(run, "vf.harness.rc_step", glue.step_jobs("C04"))
    for r in res:
        xh.default_verdict(run, r, feats, bound="all 21x21 abstract operand pairs of this callback partition")
    res = xh.run_jobs(run, "vf.harness.rc_glue", glue.glue_jobs("C04", run.tier))
    for r in res:
        xh.default_verdict(run, r, feats, bound="selector-built expressions of this partition x all states")
    from vf.harness import rc_glue

    tjobs = [{"fn": "glue_text", "globals": {"MODE": "C04", "TEXT": i}, "timeout": 400, "bound": f"'{t}' (repeated requirement keys) x all 27 assignments x yields<=1 of key 2"} for i, t in enumerate(rc_glue.TEXTS)]
    for r, j in zip(xh.run_jobs(run, "vf.harness.rc_glue", tjobs), tjobs):
        xh.default_verdict(run, r, feats, bound=j["bound"])
    run.bounds["repeated_keys"] = f"{len(rc_glue.TEXTS)} expressions of 4-5 operands with repeated requirement keys x all assignments"
    run.bounds.update(glue.glue_bounds(run.tier))
    run.bounds["step"] = "4 callbacks x 21 x 21 abstract operand states (RC x3, Hint, UFC, EvaluatedComposition x16)"
    common_assumptions(run)
    run.sample({"step": "or_composition(rc:UNKNOWN, comp:FULFILLED) -> FULFILLED"})
    run.sample({"glue": "([1]u[501])[901] with [1]=UNKNOWN -> (None, None)"})
    return run.finish(
        "model_checking",
        "Step lemmas: CrossHair 'Confirmed over all paths' for every pair of abstract operand states of each real transformer callback "
        "(covers trees of any depth modulo Lark's fold contract); glue: the real requirement_constraint_evaluation on DetLoop for all "
        "selector-built expressions within the stated bound, oracle = fold of the real parse tree with the documented tables.",
    )


def common_assumptions(run: Run):
    run.assume(
        "Lark Transformer.transform calls, per tree node, the method named after node.data with the transformed children in order (fold contract); exercised end-to-end by the glue harness",
        "Lark.parse runs untraced on the realised string (concretisation boundary): strings are concrete when they reach the parser",
        "DetLoop (FIFO, clock-free loop; pure-Python Task/Future) stands for a conforming asyncio loop",
        "evaluators are async methods that yield a bounded number of times and return the value bound to their key",
        "operand invariant of the step lemmas: value NEUTRAL <=> no requirement constraint below; re-established by every callback (checked in C06's step mode)",
    )
    run.outside += [
        "expressions outside the quantifier: juxtaposition that does not attach a single format constraint key to a hint or an operand with a requirement constraint; packages / time conditions (C10)",
        "wording and order of hint texts",
        "glue beyond the stated number of leaves (the step lemmas carry deeper trees)",
    ]
