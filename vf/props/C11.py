"""C11 — parsing is a pure function of the string, whatever happened before (XH on histories; real cache via proxy)."""
from __future__ import annotations

from vf import xh
from vf.common import Run
from vf.props.C04 import common_assumptions


def main(run: Run) -> int:
    import ahbicht.utility_functions as uf
    from ahbicht.expressions import ahb_expression_parser as aep
    from ahbicht.expressions import condition_expression_parser as cep

    run.encodes(uf.tree_copy, cep.parse_condition_expression_to_tree, aep.parse_ahb_expression_to_single_requirement_indicator_expressions)
    thorough = run.tier == "thorough"
    jobs = []
    # one-step histories: every call kind x string x every edit, then a final parse
    for o1 in range(4):
        for s1 in range(2):
            jobs.append({"fn": "history", "globals": {"STEPS": 1, "MAXSIZE": 0, "NS": 2, "EDIT_SET": tuple(range(11)), "FIX": (o1, s1)}, "timeout": 300, "bound": "1 step (call x string x 11 in-place edits) + final parse (2 parsers x 2 strings)"})
    # two-step histories
    es2 = (0, 1, 2, 4, 7, 9, 10) if thorough else (0, 1, 4, 9)
    for o1 in range(4):
        for s1 in range(2):
            for o2 in range(4):
                jobs.append({"fn": "history", "globals": {"STEPS": 2, "MAXSIZE": 0, "NS": 2, "EDIT_SET": es2, "FIX": (o1, s1, o2)}, "timeout": 600, "bound": f"2 steps (edits {es2}) + final parse"})
    if thorough:
        for o1 in range(2):  # three steps: the first one is a plain parse call (condition / AHB)
            for s1 in range(2):
                for o2 in range(4):
                    for s2 in range(2):
                        for o3 in range(4):
                            jobs.append({"fn": "history", "globals": {"STEPS": 3, "MAXSIZE": 0, "NS": 2, "EDIT_SET": (0, 2, 10), "FIX": (o1, s1, o2, s2, o3)}, "timeout": 900, "bound": "3 steps (edits 0,2,10) + final parse"})
    for a in range(9):
        jobs.append({"fn": "eviction", "globals": {"MAXSIZE": 2, "FIXA": a // 3, "FIXB": a % 3}, "timeout": 600, "bound": "cache scaled down to maxsize=2, 3 distinct strings, 4 calls, edits {none, replace, delete} at depth 1/0: hits, misses and evictions"})
    for k in range(4):
        jobs.append({"fn": "resolve_edit", "globals": {"MAXSIZE": 0, "FIXK": k}, "timeout": 600, "bound": "resolver (time conditions replaced): 5 x 5 expressions (UB1/UB2/UB3, one and two parts), the first result edited in every node (4 kinds of edit), the second compared with its resolution before any edit"})
    jobs.append({"fn": "twins", "globals": {"MAXSIZE": 0}, "timeout": 300, "bound": "14 pairs of near-twin strings (equal up to letter case, whitespace or operand order) parsed one after the other in both orders, real caches"})
    feats = lambda r, rep: {"part": r["fn"], "leak_through_shared_children": "returned" in (rep.get("what") or ""), "keyword_call": "keyword call" in (rep.get("what") or ""), "IndexError": "IndexError" in (rep.get("what") or "")}  # noqa: E731
    jobs.sort(key=lambda j: (j["fn"] != "eviction", -j["timeout"]))
    for r, j in zip(xh.run_jobs(run, "vf.harness.cache_harness", jobs), jobs):
        xh.default_verdict(run, r, feats, bound=j["bound"])
    if thorough:
        real_size_run(run)
    run.bounds["histories"] = "calls: parse_condition_expression_to_tree, parse_ahb_expression_to_..., parse_expression_including_unresolved_subexpressions with default flags and without any expansion followed by a deep edit of its result (things a caller does); strings: 2 per parser incl. a nested time condition, the second one always passed by keyword; edits: replace/delete/append child, rebind data, rebind children at depth 0 and 1"
    common_assumptions(run)
    run.assume("functools.lru_cache is reached through a proxy that calls the real C wrapper untraced (CrossHair would otherwise bypass every lru_cache); eviction is explored on the same real tree_copy and raw function composed with lru_cache(maxsize=2)")
    run.outside += ["histories longer than the stated number of steps", "the real maxsize=1024 is exercised by one concrete run in the thorough tier only"]
    run.sample({"history": "[parse '[1] U [2]', delete child 0 of the returned tree] ; parse '[1] U [2]' again == fresh parse"})
    return run.finish(
        "model_checking",
        "CrossHair explores all histories within the bound (call kind, string, in-place edit per step are symbolic selectors) against the real cache; after every parse the tree must equal a fresh uncached Lark parse.",
    )


def real_size_run(run: Run):
    """one concrete history with the real maxsize: 1025 distinct strings, then re-parse the first ones"""
    from ahbicht.expressions.condition_expression_parser import parse_condition_expression_to_tree as p
    from vf import env
    from vf.common import HELD, VIOLATED
    from vf.harness.resolve_harness import same

    bad = None
    for i in range(1, 1030):
        t = p(f"[{i}] U [2]")
        if t.children:
            del t.children[0]
    for i in (1, 2, 3, 1029, 500):
        text = f"[{i}] U [2]"
        if not same(p(text), env.real_parser("condition").parse(text)):
            bad = text
            break
    run.counters["replayed_witnesses"] += 1034
    if bad:
        run.ob("real cache size: 1029 distinct strings with edits, then re-parse", "replay", VIOLATED, detail=bad)
        run.violation("real cache size", f"after 1029 distinct parses (each returned tree edited in place) the parse of '{bad}' differs from a fresh parse", {"part": "history", "leak_through_shared_children": True}, {"kind": "C11-big", "property": "C11"})
    else:
        run.ob("real cache size: 1029 distinct strings with edits, then re-parse", "replay", HELD)
