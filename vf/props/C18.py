"""
C18 — key categories (PZ over all integers), list extraction / __add__ (XH, selectors over a boundary pool),
enumeration of possible content evaluation results (real code run once per size, then a z3 counting query whose
symbolic variable is the assignment).
"""

from __future__ import annotations

import itertools

import z3

from vf import pyz3, xh
from vf.common import ERROR, HELD, INCONCLUSIVE, VIOLATED, Run

CATS = ["REQUIREMENT_CONSTRAINT", "HINT", "FORMAT_CONSTRAINT", "PACKAGE", "REPEATABILITY_CONSTRAINT"]
VALUE_ERROR, NOT_IMPL, OTHER = -1, -2, -3


def _doc_category(n, p):
    """documented category as a z3 term (index into CATS, VALUE_ERROR for 'rejected')"""
    return z3.If(
        p,
        z3.IntVal(3),
        z3.If(
            z3.And(n >= 1, n <= 499),
            z3.IntVal(0),
            z3.If(
                z3.And(n >= 500, n <= 900),
                z3.IntVal(1),
                z3.If(z3.And(n >= 901, n <= 999), z3.IntVal(2), z3.If(z3.And(n >= 2000, n <= 2499), z3.IntVal(4), z3.IntVal(VALUE_ERROR))),
            ),
        ),
    )


def pz_ranges(run: Run):
    from ahbicht.condition_node_distinction import derive_condition_node_type
    from ahbicht.expressions.condition_expression_parser import extract_categorized_keys_from_tree
    from ahbicht.models.condition_node_type import ConditionNodeType

    run.encodes(derive_condition_node_type, extract_categorized_keys_from_tree)
    n, p = z3.Int("n"), z3.Bool("ends_p")
    base = [n >= 0]

    # ---- derive_condition_node_type
    interp = pyz3.Interp()
    interp.base = list(base)
    key = pyz3.SymStrKey(n, p)
    paths = interp.explore(lambda: interp.call_function(derive_condition_node_type, [key], {}))

    def enc(outcome):
        kind, val = outcome
        if kind == "raise":
            return z3.IntVal(VALUE_ERROR if val == "ValueError" else OTHER)
        for i, c in enumerate(CATS):
            if val is ConditionNodeType[c]:
                return z3.IntVal(i)
        return z3.IntVal(OTHER)

    derive = pyz3.outcome_term(paths, enc, z3.IntVal(OTHER))
    run.counters["smt_queries"] += interp.queries
    run.counters["smt_time_s"] += interp.solver_time
    run.bounds["derive_condition_node_type_paths"] = len(paths)

    # translation validation: a witness per path + every boundary ±1 on the real function
    def real_derive(nv, pv):
        s = str(nv) + ("P" if pv else "")
        try:
            return CATS.index(derive_condition_node_type(s).name)
        except ValueError:
            return VALUE_ERROR
        except Exception:  # pylint:disable=broad-except
            return OTHER

    probes = []
    for pc, _ in paths:
        r, m, dt = pyz3.check(base + [pc])
        run.counters["smt_queries"] += 1
        run.counters["smt_time_s"] += dt
        if r == "sat":
            probes.append((m.eval(n, model_completion=True).as_long(), bool(m.eval(p, model_completion=True))))
    for b in (0, 1, 499, 500, 900, 901, 999, 1000, 1999, 2000, 2499, 2500):
        for d in (-1, 0, 1):
            if b + d >= 0:
                probes.append((b + d, False))
                probes.append((b + d, True))
    bad = 0
    for nv, pv in probes:
        r, m, dt = pyz3.check([n == nv, p == pv, z3.Int("r") == derive])
        run.counters["smt_queries"] += 1
        run.counters["smt_time_s"] += dt
        encv = m[z3.Int("r")].as_long()
        run.counters["replayed_witnesses"] += 1
        if encv != real_derive(nv, pv):
            bad += 1
            run.error(f"translation validation: derive({nv}{'P' if pv else ''}) encoded={encv} real={real_derive(nv, pv)}")
    run.ob(f"translation-validation(derive_condition_node_type, {len(probes)} probes incl. every boundary±1)", "PZ", HELD if not bad else ERROR)

    def lemma(name, assumptions, claim, replay):
        res, model, dt = pyz3.check(base + list(assumptions) + [z3.Not(claim)])
        tw, _, dt2 = pyz3.check(base + list(assumptions))
        run.counters["smt_queries"] += 2
        run.counters["smt_time_s"] += dt + dt2
        if tw != "sat":
            run.ob(name, "z3", ERROR, detail=f"vacuity twin {tw}")
        elif res == "unsat":
            run.ob(name, "z3", HELD, time_s=round(dt, 4), bound="all integers n >= 0, both suffix values (no bound)")
        elif res == "sat":
            nv = model.eval(n, model_completion=True).as_long()
            pv = bool(model.eval(p, model_completion=True))
            ok, what = replay(nv, pv)
            keystr = str(nv) + ("P" if pv else "")
            if not ok:
                run.ob(name, "z3", VIOLATED, detail=what)
                run.violation(name, what, {"lemma": name, "key": keystr}, {"kind": "C18-key", "property": "C18", "lemma": name, "key": keystr})
            else:
                run.ob(name, "z3", ERROR, detail=f"model key {keystr} did not reproduce on the real function")
        else:
            run.ob(name, "z3", INCONCLUSIVE, detail=res)

    def replay_derive(nv, pv):
        got = real_derive(nv, pv)
        r, m, _ = pyz3.check([n == nv, p == pv, z3.Int("e") == _doc_category(n, p)])
        exp = m[z3.Int("e")].as_long()
        name = lambda v: CATS[v] if v >= 0 else {VALUE_ERROR: "ValueError", OTHER: "other"}[v]  # noqa: E731
        return got == exp, f"derive_condition_node_type('{nv}{'P' if pv else ''}') = {name(got)}, documented: {name(exp)}"

    lemma("derive_condition_node_type == documented ranges (1-499 RC, 500-900 hint, 901-999 FC, 2000-2499 repeatability, nP package, else ValueError)", [], derive == _doc_category(n, p), replay_derive)
    run.sample({"lemma": "∀ n ≥ 0, suffix: derive(n) = documented category", "answer": "unsat of the negation", "paths": len(paths)})

    # ---- extract_categorized_keys_from_tree([key], sanitize=False): which list receives the key
    interp2 = pyz3.Interp()
    interp2.base = list(base)
    key2 = pyz3.SymStrKey(n, p)
    paths2 = interp2.explore(lambda: interp2.call_function(extract_categorized_keys_from_tree, [[key2], False], {}))
    run.counters["smt_queries"] += interp2.queries
    run.counters["smt_time_s"] += interp2.solver_time

    def enc2(outcome):
        kind, val = outcome
        if kind == "raise":
            return z3.IntVal({"ValueError": VALUE_ERROR, "NotImplementedError": NOT_IMPL}.get(val, OTHER))
        if not isinstance(val, pyz3.Record):
            return z3.IntVal(OTHER)
        f = val.fields
        lists = [f.get("requirement_constraint_keys"), f.get("hint_keys"), f.get("format_constraint_keys")]
        others = [f.get("package_keys"), f.get("time_condition_keys")]
        if any(not isinstance(x, list) for x in lists + others) or any(others):
            return z3.IntVal(OTHER)
        filled = [i for i, x in enumerate(lists) if len(x) == 1 and x[0] is key2]
        if len(filled) == 1 and sum(len(x) for x in lists) == 1:
            return z3.IntVal(filled[0])
        return z3.IntVal(OTHER)

    extract = pyz3.outcome_term(paths2, enc2, z3.IntVal(OTHER))
    run.bounds["extract_single_key_paths"] = len(paths2)
    doc_list = z3.If(z3.Or(z3.And(n >= 1, n <= 499), z3.And(n >= 2000, n <= 2499)), z3.IntVal(0), z3.If(z3.And(n >= 500, n <= 900), z3.IntVal(1), z3.If(z3.And(n >= 901, n <= 999), z3.IntVal(2), z3.IntVal(VALUE_ERROR))))

    def real_extract(nv, pv):
        s = str(nv) + ("P" if pv else "")
        try:
            x = extract_categorized_keys_from_tree([s], sanitize=False)
        except ValueError:
            return VALUE_ERROR
        except NotImplementedError:
            return NOT_IMPL
        except Exception:  # pylint:disable=broad-except
            return OTHER
        lists = [x.requirement_constraint_keys, x.hint_keys, x.format_constraint_keys]
        filled = [i for i, l in enumerate(lists) if l == [s]]
        if len(filled) == 1 and sum(len(l) for l in lists) == 1 and not x.package_keys and not x.time_condition_keys:
            return filled[0]
        return OTHER

    bad = 0
    probes2 = []
    for pc, _ in paths2:
        r, m, dt = pyz3.check(base + [pc])
        run.counters["smt_queries"] += 1
        if r == "sat":
            probes2.append((m.eval(n, model_completion=True).as_long(), bool(m.eval(p, model_completion=True))))
    probes2 += [(b + d, False) for b in (0, 1, 499, 500, 900, 901, 999, 1000, 2000, 2499, 2500) for d in (-1, 0, 1) if b + d >= 0]
    for nv, pv in probes2:
        r, m, dt = pyz3.check([n == nv, p == pv, z3.Int("r") == extract])
        run.counters["smt_queries"] += 1
        run.counters["replayed_witnesses"] += 1
        if m[z3.Int("r")].as_long() != real_extract(nv, pv):
            bad += 1
            run.error(f"translation validation: extract([{nv}{'P' if pv else ''}]) encoded={m[z3.Int('r')].as_long()} real={real_extract(nv, pv)}")
    run.ob(f"translation-validation(extract_categorized_keys_from_tree single key, {len(probes2)} probes)", "PZ", HELD if not bad else ERROR)

    def replay_extract(nv, pv):
        got = real_extract(nv, pv)
        r, m, _ = pyz3.check([n == nv, z3.Int("e") == doc_list])
        exp = m[z3.Int("e")].as_long()
        nm = {0: "requirement_constraint_keys", 1: "hint_keys", 2: "format_constraint_keys", VALUE_ERROR: "ValueError", NOT_IMPL: "NotImplementedError", OTHER: "other"}
        return got == exp, f"extract_categorized_keys_from_tree(['{nv}']) -> {nm[got]}, documented: {nm[exp]}"

    lemma("extraction puts a key into exactly the one list of its range, rejects everything else (all integers, non-package keys)", [z3.Not(p)], extract == doc_list, replay_extract)
    lemma("categories are mutually exclusive and extraction agrees with derive_condition_node_type", [z3.Not(p)], z3.And(z3.Implies(derive == 0, extract == 0), z3.Implies(derive == 4, extract == 0), z3.Implies(derive == 1, extract == 1), z3.Implies(derive == 2, extract == 2), z3.Implies(derive == VALUE_ERROR, extract == VALUE_ERROR)), replay_extract)


def z3_enumeration(run: Run, maxsize: int):
    """real generate_possible_content_evaluation_results per (m, n); symbolic variable = the assignment α"""
    from ahbicht.models.categorized_key_extract import CategorizedKeyExtract
    from ahbicht.models.condition_nodes import ConditionFulfilledValue as CFV

    run.encodes(CategorizedKeyExtract.generate_possible_content_evaluation_results)
    states = [CFV.FULFILLED, CFV.UNFULFILLED, CFV.UNKNOWN]
    configs = []
    for m, nfc in itertools.product(range(maxsize + 1), repeat=2):
        if m + nfc == 0:
            continue  # outside the claim (DESIGN §C18)
        configs.append(([str(k) for k in (3, 17, 2001)[:m]], [str(k) for k in (901, 950, 999)[:nfc]]))
    # key lists whose digits concatenate alike (a history of calls in one process must not matter)
    configs += [(["1", "23"], []), (["123"], []), (["12", "3"], ["901"]), (["1", "2", "3"], ["901"]), (["2", "4"], ["901"]), (["24"], ["901"]), (["3", "17"], ["901"])]
    for rcs, fcs in configs:
        m, nfc = len(rcs), len(fcs)
        x = CategorizedKeyExtract(hint_keys=["501"], format_constraint_keys=list(fcs), requirement_constraint_keys=list(rcs), package_keys=[], time_condition_keys=[])
        name = f"enumeration rc keys {rcs}, fc keys {fcs}: every assignment exactly once"
        try:
            res = x.generate_possible_content_evaluation_results()
        except Exception as e:  # pylint:disable=broad-except
            run.ob(name, "z3", VIOLATED, detail=f"raised {type(e).__name__}")
            run.violation(name, f"generate_possible_content_evaluation_results raised {type(e).__name__}: {e} for rc={rcs} fc={fcs}", {"part": "enumeration", "m": m, "n": nfc, "raised": type(e).__name__}, {"kind": "C18-enum", "property": "C18", "rc": rcs, "fc": fcs})
            continue
        rv = [z3.Int(f"rc{i}") for i in range(m)]
        fv = [z3.Bool(f"fc{j}") for j in range(nfc)]
        dom = [z3.And(v >= 0, v < 3) for v in rv]
        matches = []
        structural = None
        for cer in res:
            if sorted(cer.requirement_constraints) != sorted(rcs) or sorted(cer.format_constraints) != sorted(fcs):
                structural = f"result with keys rc={sorted(cer.requirement_constraints)} fc={sorted(cer.format_constraints)}"
                break
            if any(v not in states for v in cer.requirement_constraints.values()):
                structural = f"result assigns {dict(cer.requirement_constraints)}"
                break
            conj = [rv[i] == states.index(cer.requirement_constraints[k]) for i, k in enumerate(rcs)]
            conj += [fv[j] == bool(cer.format_constraints[k].format_constraint_fulfilled) for j, k in enumerate(fcs)]
            matches.append(z3.And(*conj) if conj else z3.BoolVal(True))
        if structural:
            run.ob(name, "z3", VIOLATED, detail=structural)
            run.violation(name, f"{structural} for rc keys {rcs}, fc keys {fcs}", {"part": "enumeration", "m": m, "n": nfc, "structural": True}, {"kind": "C18-enum", "property": "C18", "rc": rcs, "fc": fcs})
            continue
        count = z3.Sum([z3.If(mt, 1, 0) for mt in matches]) if matches else z3.IntVal(0)
        r, model, dt = pyz3.check(dom + [count != 1])
        run.counters["smt_queries"] += 1
        run.counters["smt_time_s"] += dt
        if r == "unsat":
            run.ob(name, "z3", HELD, time_s=round(dt, 4), bound=f"{len(res)} results; all 3^{m}*2^{nfc} assignments in one query")
        elif r == "sat":
            alpha = {rcs[i]: states[model.eval(rv[i], model_completion=True).as_long()].name for i in range(m)}
            alpha.update({fcs[j]: bool(model.eval(fv[j], model_completion=True)) for j in range(nfc)})
            # replay: count natively
            cnt = sum(1 for cer in res if all(cer.requirement_constraints[k].name == alpha[k] for k in rcs) and all(cer.format_constraints[k].format_constraint_fulfilled == alpha[k] for k in fcs))
            if cnt != 1:
                what = f"assignment {alpha} occurs {cnt} times among the {len(res)} generated content evaluation results (expected exactly once)"
                run.ob(name, "z3", VIOLATED, detail=what)
                run.violation(name, what, {"part": "enumeration", "m": m, "n": nfc, "count": min(cnt, 2)}, {"kind": "C18-enum", "property": "C18", "rc": rcs, "fc": fcs, "assignment": alpha})
            else:
                run.ob(name, "z3", ERROR, detail="model did not reproduce")
        else:
            run.ob(name, "z3", INCONCLUSIVE, detail=r)
    run.sample({"enumeration": "m=2,n=1", "query": "∃α ∈ {F,U,UNKNOWN}^2×{T,F}: count(α ∈ results) ≠ 1", "answer": "unsat"})


def xh_part(run: Run):
    from vf.harness import C18_extract as H

    thorough = run.tier == "thorough"
    jobs = []
    # extraction: partition on the first pool index
    for a in range(H.NPOOL):
        jobs.append({"fn": "extract_list", "globals": {"FIX_A": a, "FIX_B": -1}, "timeout": 240 if thorough else 120})
    if not thorough:
        # quick: lists of length <= 2 are reached within the budget of each partition; length 3 is part of the same
        # condition, so the condition confirms only if all lengths are exhausted.
        pass
    for a in range(H.NPOOL):
        if thorough:
            for b in range(H.NPOOL):
                jobs.append({"fn": "add_extracts", "globals": {"FIX_A": a, "FIX_B": b}, "timeout": 300})
        else:
            jobs.append({"fn": "add_extracts", "globals": {"FIX_A": a, "FIX_B": (a * 3 + 1) % H.NPOOL}, "timeout": 120})
    top = 3 if thorough else 2
    for m in range(top + 1):
        for nfc in range(top + 1):
            if m + nfc and m + nfc <= 5:  # (3, 3) = 216 results per path does not finish within the budget: outside the bound
                jobs.append({"fn": "enumerate_results", "globals": {"FIX_M": m, "FIX_N": nfc}, "timeout": 600 if thorough else 100})
    nt_ = len(H.tree_cases())
    for lo in range(0, nt_, 4):
        jobs.append({"fn": "extract_tree", "globals": {"T_LO": lo, "T_HI": min(nt_, lo + 4)}, "timeout": 600})
    run.bounds["xh_tree_extraction"] = f"{nt_} expressions (C10's case list, every 2nd, plus composed/duplicate-key ones) x 4 flag combinations (resolve_packages, replace_time_conditions) x an optional earlier extraction with other flags"
    results = xh.run_jobs(run, "vf.harness.C18_extract", jobs)
    for r in results:
        xh.default_verdict(run, r, violation_features=lambda r, rep: {"part": r["fn"]}, bound="keys from the 10-key boundary pool")
    run.bounds["xh_extract"] = "lists of <= 3 keys (duplicates allowed) from pool {1,2,7,499,500,900,901,999,2000,2499}"
    run.bounds["xh_add"] = "summands of <= 2 keys each; " + ("all first-key pairs" if thorough else "10 of the 100 first-key pairs (quick)")


def replay(p: dict) -> dict:
    """native replay of a C18 witness"""
    kind = p.get("kind")
    if kind == "C18-key":
        from ahbicht.condition_node_distinction import derive_condition_node_type
        from ahbicht.expressions.condition_expression_parser import extract_categorized_keys_from_tree

        key = p["key"]
        nv = int(key.rstrip("P"))
        out = {}
        try:
            out["derive"] = derive_condition_node_type(key).name
        except Exception as e:  # pylint:disable=broad-except
            out["derive"] = type(e).__name__
        try:
            out["extract"] = repr(extract_categorized_keys_from_tree([key]))
        except Exception as e:  # pylint:disable=broad-except
            out["extract"] = type(e).__name__
        if key.endswith("P"):
            exp = "PACKAGE"
        elif 1 <= nv <= 499:
            exp = "REQUIREMENT_CONSTRAINT"
        elif 500 <= nv <= 900:
            exp = "HINT"
        elif 901 <= nv <= 999:
            exp = "FORMAT_CONSTRAINT"
        elif 2000 <= nv <= 2499:
            exp = "REPEATABILITY_CONSTRAINT"
        else:
            exp = "ValueError"
        bad = out["derive"] != exp
        return {"outcome": "fail" if bad else "pass", "what": f"key {key}: {out}, documented {exp}"}
    if kind == "C18-enum":
        from ahbicht.models.categorized_key_extract import CategorizedKeyExtract

        x = CategorizedKeyExtract(hint_keys=[], format_constraint_keys=p["fc"], requirement_constraint_keys=p["rc"], package_keys=[], time_condition_keys=[])
        try:
            res = x.generate_possible_content_evaluation_results()
        except Exception as e:  # pylint:disable=broad-except
            return {"outcome": "fail", "what": f"raised {type(e).__name__}"}
        sigs = [(tuple(c.requirement_constraints.get(k) for k in p["rc"]), tuple(c.format_constraints[k].format_constraint_fulfilled if k in c.format_constraints else None for k in p["fc"])) for c in res]
        ok = len(sigs) == len(set(sigs)) == 3 ** len(p["rc"]) * 2 ** len(p["fc"])
        return {"outcome": "pass" if ok else "fail", "what": f"{len(sigs)} results, {len(set(sigs))} distinct"}
    return {"outcome": "harness-error", "detail": f"unknown kind {kind}"}


def main(run: Run) -> int:
    run.engines["PZ"] = f"pyz3 (ast->z3), z3 {z3.get_version_string()}"
    try:
        pz_ranges(run)
    except pyz3.Unsupported as u:
        run.ob("PZ range lemmas", "PZ", INCONCLUSIVE, detail=f"source outside PZ subset ({u}); XH part still runs")
    z3_enumeration(run, 3 if run.tier == "thorough" else 2)
    xh_part(run)
    run.assume(
        "a condition key string reaching derive_condition_node_type matches [0-9]+P? (what the lexer's CONDITION_KEY/PACKAGE_KEY terminals deliver); the str->int step is validated on every range boundary ±1 against the real function",
        "list-level code treats keys as labels: pool keys stand for their range (the numeric side is decided for all integers by the PZ lemma)",
    )
    run.outside += [
        "n = m = 0 in the enumeration (the statement does not settle whether the empty product has one element)",
        "order of package_keys / time_condition_keys in an extract",
        "keys with leading zeros or non-ASCII digits",
    ]
    return run.finish(
        "other",
        "Range lemmas: LIA queries over ALL integers (no bound) on terms PZ extracts from the current source of "
        "derive_condition_node_type and extract_categorized_keys_from_tree; enumeration: real function run per size, then one z3 "
        "query per size whose symbolic variable is the assignment (count != 1 is unsat); list extraction/__add__: CrossHair over "
        "index selectors into a boundary pool, 'Confirmed over all paths' only.",
        exhaustive=False,
    )
