"""
C20 — shipped date-time format constraints 931..935.  Engines: TM (time model) + PZ (real source -> z3).
"""

from __future__ import annotations

import z3

from vf import pyz3, timemodel as tm
from vf.common import ERROR, HELD, INCONCLUSIVE, VIOLATED, Run

T1996 = tm.days_from_civil(1996, 1, 1) * 86400
T2038 = tm.days_from_civil(2038, 1, 1) * 86400
OK_, OK_MSG, BAD_MSG, BAD_NOMSG, RAISED, OTHER = 1, 2, 0, -1, -10, -11
KEYS = ("931", "932", "933", "934", "935")


_SHARED = []


def _evaluator():
    """one long-lived evaluator instance for the whole run (evaluators are singletons in real use, so results must not
    depend on what the instance evaluated before)"""
    from ahbicht.content_evaluation.fc_evaluators import FcEvaluator

    if not _SHARED:

        class _E(FcEvaluator):
            pass

        _SHARED.append(_E())
    return _SHARED[0]


def encode_functions(run: Run):
    from ahbicht.content_evaluation import german_strom_and_gas_tag as g
    from ahbicht.content_evaluation.fc_evaluators import FcEvaluator

    run.encodes(g.has_no_utc_offset, g.is_xtag_limit, g.is_stromtag_limit, g.is_gastag_limit, g._get_german_local_time)
    t, off = z3.Int("t"), z3.Int("off")
    terms, raises, paths_by_key = {}, {}, {}
    for key in KEYS:
        meth = getattr(FcEvaluator, f"evaluate_{key}")
        run.encodes(meth)
        interp = pyz3.Interp(intrinsics={g.parse_as_datetime: lambda interp, entered_input: (tm.SymDT(t, off), None)})
        interp.base = [off > -86400, off < 86400, t + off >= tm.MIN_LOCAL, t + off <= tm.MAX_LOCAL]
        try:
            paths = interp.explore(lambda meth=meth, interp=interp: interp.call_function(meth, [pyz3.Opaque("self"), pyz3.Opaque("entered_input")], {}))
        except pyz3.Unsupported as u:
            run.ob(f"translate evaluate_{key}", "PZ", INCONCLUSIVE, detail=f"source outside PZ subset: {u} (boundary witnesses still run through the real code)")
            continue
        run.counters["smt_queries"] += interp.queries
        run.counters["smt_time_s"] += interp.solver_time

        def enc(outcome):
            kind, val = outcome
            if kind == "raise":
                return z3.IntVal(RAISED)
            if isinstance(val, pyz3.Record) and getattr(val.cls, "__name__", "") == "EvaluatedFormatConstraint":
                ful = val.fields.get("format_constraint_fulfilled")
                msg = val.fields.get("error_message", None)
                if ful is True:
                    return z3.IntVal(OK_ if msg is None else OK_MSG)
                if ful is False:
                    return z3.IntVal(BAD_NOMSG if msg is None else BAD_MSG)
            return z3.IntVal(OTHER)

        terms[key] = pyz3.outcome_term(paths, enc, z3.IntVal(OTHER))
        raises[key] = [(pc, o[1]) for pc, o in paths if o[0] == "raise"]
        paths_by_key[key] = paths
    if not terms:
        raise pyz3.Unsupported("none of evaluate_931..935 is translatable")
    return t, off, terms, paths_by_key


def real_verdict(key: str, iso: str):
    ev = _evaluator()
    try:
        r = getattr(ev, f"evaluate_{key}")(iso)
    except Exception as e:  # pylint:disable=broad-except
        return RAISED, type(e).__name__
    ful, msg = r.format_constraint_fulfilled, r.error_message
    if ful is True:
        return (OK_ if msg is None else OK_MSG), None
    if ful is False:
        return (BAD_NOMSG if msg is None else BAD_MSG), msg
    return OTHER, None


def spec_native(key: str, t: int, off: int) -> int:
    """documented verdict by independent integer arithmetic (only for 1996 <= t < 2038)"""
    if key == "931":
        return OK_ if off == 0 else BAD_MSG
    eu = 3600
    for inst, o in tm.eu_switches(1996, 2037):
        if t >= inst:
            eu = o
    want = 0 if key in ("932", "933") else 21600
    return OK_ if (t + eu) % 86400 == want else BAD_MSG


def main(run: Run) -> int:
    from ahbicht.content_evaluation import german_strom_and_gas_tag as g

    run.engines["TM+PZ"] = f"time model + pyz3 (ast->z3), z3 {z3.get_version_string()}"
    try:
        t, off, terms, paths_by_key = encode_functions(run)
    except pyz3.Unsupported as u:
        run.ob("translate 931..935", "PZ", INCONCLUSIVE, detail=f"source outside PZ subset: {u}")
        witness_grid(run)
        collision_histories(run)
        witnesses_only(run)
        return run.finish("other", "PZ could not translate the current source; only replayed witnesses", False)

    dom_q = [t >= T1996, t < T2038, off > -86400, off < 86400]  # the property's quantifier
    dom_all = [off > -86400, off < 86400, t + off >= tm.MIN_LOCAL, t + off <= tm.MAX_LOCAL]  # every parsed datetime

    def val(model, v):
        return model.eval(v, model_completion=True).as_long()

    # ---- translation validation: one witness per path of every function, through the real evaluate_93x via ISO strings
    bad = 0
    nprobe = 0
    for key in terms:
        for pc, _ in paths_by_key[key]:
            for extra in ([], dom_q):
                r, m, dt = pyz3.check(dom_all + [pc] + extra)
                run.counters["smt_queries"] += 1
                run.counters["smt_time_s"] += dt
                if r != "sat":
                    continue
                tv, ov = val(m, t), val(m, off)
                r2, m2, _ = pyz3.check([t == tv, off == ov, z3.Int("r") == terms[key]])
                enc = val(m2, z3.Int("r"))
                real, _ = real_verdict(key, tm.render_iso(tv, ov))
                run.counters["replayed_witnesses"] += 1
                nprobe += 1
                if enc != real:
                    bad += 1
                    run.error(f"translation validation {key}: {tm.render_iso(tv, ov)} encoded={enc} real={real}")
    run.ob(f"translation-validation(931..935: {nprobe} path witnesses rendered to ISO strings vs real evaluate_93x)", "PZ", HELD if not bad else ERROR)
    if bad:
        return run.finish("other", "translation validation failed", False)

    def lemma(name, assumptions, claim, keys_for_replay, bound):
        res, model, dt = pyz3.check(list(assumptions) + [z3.Not(claim)], timeout_ms=120000)
        tw, _, dt2 = pyz3.check(list(assumptions))
        run.counters["smt_queries"] += 2
        run.counters["smt_time_s"] += dt + dt2
        if tw != "sat":
            run.ob(name, "z3", ERROR, detail=f"vacuity twin {tw}")
            return
        if res == "unsat":
            run.ob(name, "z3", HELD, time_s=round(dt, 3), bound=bound)
            return
        if res != "sat":
            run.ob(name, "z3", INCONCLUSIVE, detail=res)
            return
        tv, ov = val(model, t), val(model, off)
        iso = tm.render_iso(tv, ov)
        reproduced = False
        for key in keys_for_replay:
            real, info = real_verdict(key, iso)
            run.counters["replayed_witnesses"] += 1
            in_q = T1996 <= tv < T2038
            if real == RAISED:
                what = f"evaluate_{key}('{iso}') raises {info}"
                feats = {"key": "93x", "kind": "raises", "exception": info}
            elif in_q and real != spec_native(key, tv, ov):
                exp = spec_native(key, tv, ov)
                what = f"evaluate_{key}('{iso}') is {'fulfilled' if real in (OK_, OK_MSG) else 'unfulfilled'}, documented: {'fulfilled' if exp == OK_ else 'unfulfilled'}"
                feats = {"key": key if key == "931" else "932-935", "kind": "verdict", "zero_offset_not_midnight": bool(key == "931" and ov == 0 and tv % 86400 != 0)}
            elif real in (BAD_NOMSG, OK_MSG, OTHER):
                what = f"evaluate_{key}('{iso}') fulfilled/message mismatch (code {real})"
                feats = {"key": key, "kind": "message"}
            else:
                continue
            reproduced = True
            run.violation(name, what, feats, {"kind": "C20-iso", "property": "C20", "fc": key, "iso": iso, "t": tv, "off": ov})
            break
        if reproduced:
            run.ob(name, "z3", VIOLATED, detail=iso)
        else:
            run.ob(name, "z3", ERROR, detail=f"model {iso} did not reproduce on the real evaluate_93x")

    # ---- L1: live pytz table of the zone object the code uses == EU rule, every second 1996..2037
    zone = getattr(g, "berlin", None)
    try:
        live = tm.zone_offset_term(zone, t)
        res, model, dt = pyz3.check([t >= T1996, t < T2038, live != tm.eu_offset_term(t)])
        run.counters["smt_queries"] += 1
        run.counters["smt_time_s"] += dt
        if res == "unsat":
            run.ob("zone table of german_strom_and_gas_tag.berlin == EU rule (last Sunday of March/October 01:00 UTC), every second 1996-2037", "z3", HELD, time_s=round(dt, 3))
        elif res == "sat":
            run.ob("zone table == EU rule", "z3", INCONCLUSIVE, detail=f"differs at t={val(model, t)}; the verdict lemmas below decide whether behaviour is affected")
        else:
            run.ob("zone table == EU rule", "z3", INCONCLUSIVE, detail=res)
    except pyz3.Unsupported as u:
        run.ob("zone table == EU rule", "z3", INCONCLUSIVE, detail=str(u))

    eu_local = (t + tm.eu_offset_term(t)) % 86400
    for key, want in (("932", 0), ("933", 0), ("934", 21600), ("935", 21600)):
        if key not in terms:
            continue
        lemma(
            f"[{key}] fulfilled (no message) iff instant is {want // 3600:02d}:00:00 German local time by the EU rule, else unfulfilled with message; for every offset",
            dom_q,
            z3.If(eu_local == want, terms[key] == OK_, terms[key] == BAD_MSG),
            [key],
            "every second 1996-01-01..2037-12-31 x every UTC offset in (-24h, +24h) at second resolution",
        )
    if "931" in terms:
      lemma(
        "[931] fulfilled iff written with zero UTC offset, else unfulfilled with message",
        dom_q,
        z3.If(off == 0, terms["931"] == OK_, terms["931"] == BAD_MSG),
        ["931"],
        "every second 1996-2037 x every offset",
    )
    off2 = z3.Int("off2")
    for key in ("932", "934"):
        if key not in terms:
            continue
        lemma(
            f"[{key}] verdict independent of the offset used to write the instant",
            dom_q + [off2 > -86400, off2 < 86400],
            terms[key] == z3.substitute(terms[key], (off, off2)),
            [key],
            "every second 1996-2037 x every pair of offsets",
        )
    for key in terms:
        lemma(
            f"[{key}] never raises for any parsed datetime of the representable range (years 1..9999)",
            dom_all,
            terms[key] != RAISED,
            [key],
            "every representable (instant, offset) pair, years 0001-9999",
        )
        lemma(
            f"[{key}] result is well-formed: message present iff unfulfilled",
            dom_all + [terms[key] != RAISED],
            z3.Or(terms[key] == OK_, terms[key] == BAD_MSG),
            [key],
            "every representable (instant, offset) pair",
        )
    run.sample({"lemma": "[932] verdict", "query": "1996<=t<2038 ∧ |off|<24h ∧ verdict(t,off) ≠ documented(t)", "answer": "unsat expected"})
    witness_grid(run)
    collision_histories(run)
    witnesses_only(run)
    run.assume(
        "a parsed aware datetime is faithfully represented by (UTC instant in whole seconds, notation offset in seconds); sub-second inputs are outside",
        "CPython datetime.astimezone raises OverflowError exactly when the UTC instant or the converted wall time leaves years 1..9999",
        "pytz.fromutc picks the last transition <= instant (index 0 before the first) — read off pytz/tzinfo.py",
        "PZ/TM translation validated on every run: a solver-chosen witness per path is rendered to an ISO string and run through the real evaluate_93x",
    )
    run.outside += [
        "the string -> datetime step (datetime.fromisoformat is C code): 'any other string is unfulfilled with a message and never raises' is covered only for the parsed representation and the replayed witness strings",
        "sub-second inputs",
    ]
    run.bounds["instants"] = "every whole second 1996-01-01T00:00:00Z .. 2037-12-31T23:59:59Z (verdict lemmas); years 1..9999 (no-raise lemmas)"
    run.bounds["offsets"] = "every offset in (-24:00:00, +24:00:00) at second resolution"
    return run.finish(
        "other",
        "LIA lemmas (z3, negation unsat) over terms PZ extracts from the current source of evaluate_931..935 / is_xtag_limit / "
        "has_no_utc_offset / is_*tag_limit with the live pytz table of the zone object the code uses; one query covers every second "
        "and every offset; counterexamples are rendered to ISO strings and replayed on the real evaluate_93x.",
        exhaustive=True,
    )


def witness_grid(run: Run):
    """TM validation on boundary instants (DESIGN §4.4): every EU switch instant 1996-2037 and the German-local 00:00 / 06:00
    instants of the switch day and its neighbours, each +-1 s, written with 12 UTC offsets (incl. negative offsets with minutes,
    sub-hour and sub-minute offsets, and Z), through the REAL evaluate_931..935 (real string parsing included) against the documented verdict computed by
    independent integer arithmetic.  A disagreement is a violation replayed on the real code by construction."""
    offsets = [0, 3600, 7200, -3600, -12600, 20700, -28800, 50400, 1800, 30, -900, 3599]
    instants = set()
    for inst, _ in tm.eu_switches(1996, 2037):
        day0 = (inst // 86400) * 86400
        for d in (-1, 0, 1):
            for local in (0, 6 * 3600):
                for off in (3600, 7200):
                    base = day0 + d * 86400 + local - off
                    for e in (-1, 0, 1):
                        instants.add(base + e)
        for e in (-1, 0, 1, 3600, -3600):
            instants.add(inst + e)
    instants = sorted(t for t in instants if T1996 <= t < T2038)
    n = 0
    bad = []
    for t in instants:
        for off in offsets:
            iso = tm.render_iso(t, off)
            if off == 0 and t % 2 == 0:
                iso = iso.replace("+00:00", "Z")
            for key in KEYS:
                n += 1
                real, info = real_verdict(key, iso)
                want = spec_native(key, t, off)
                if real != want:
                    bad.append((key, iso, t, off, real, info, want))
    run.counters["replayed_witnesses"] += n
    name = f"boundary witnesses: {len(instants)} instants around every DST switch 1996-2037 x {len(offsets)} offsets x 5 constraints through the real evaluate_93x (string parsing included)"
    if not bad:
        run.ob(name, "replay", HELD)
        return
    key, iso, t, off, real, info, want = bad[0]
    if real == RAISED:
        what = f"evaluate_{key}('{iso}') raises {info}"
        feats = {"key": "93x", "kind": "raises", "exception": info}
    else:
        what = f"evaluate_{key}('{iso}') is {'fulfilled' if real in (OK_, OK_MSG) else 'unfulfilled'}, documented: {'fulfilled' if want == OK_ else 'unfulfilled'} ({len(bad)} of {n} boundary witnesses disagree)"
        feats = {"key": key if key == "931" else "932-935", "kind": "verdict", "zero_offset_not_midnight": bool(key == "931" and off == 0 and t % 86400 != 0)}
    run.ob(name, "replay", VIOLATED, detail=what)
    run.violation(name, what, feats, {"kind": "C20-iso", "property": "C20", "fc": key, "iso": iso, "t": t, "off": off})


def collision_histories(run: Run):
    """what was judged before must not matter: pairs of datetimes with the SAME written date and time but different offsets,
    lying on opposite sides of a DST switch, judged one after the other in this process (the second one is a German-local
    00:00 / 06:00 instant written with +00:00, +01:00 or +02:00); both verdicts against the documented one"""
    first_offsets = [32400, -28800, 50400, 0, 7200, 3600, -12600]
    n, bad = 0, []
    for inst, new_off in tm.eu_switches(1996, 2037):
        day0 = (inst // 86400) * 86400
        for d in (-1, 0, 1):
            for local in (0, 6 * 3600):
                for eu in (3600, 7200):
                    lim = day0 + d * 86400 + local - eu  # candidate limit instant (a real limit iff eu is the offset in force)
                    for o2 in (0, 3600, 7200):
                        for o1 in first_offsets:
                            if o1 == o2:
                                continue
                            t1 = lim + o2 - o1  # same written wall clock, other offset
                            if not (T1996 <= t1 < T2038 and T1996 <= lim < T2038) or (t1 >= inst) == (lim >= inst):
                                continue
                            iso1, iso2 = tm.render_iso(t1, o1), tm.render_iso(lim, o2)
                            for key in KEYS:
                                n += 2
                                r1, _ = real_verdict(key, iso1)
                                r2, info = real_verdict(key, iso2)
                                if r1 != spec_native(key, t1, o1):
                                    bad.append((key, [iso1], t1, o1, r1, spec_native(key, t1, o1)))
                                if r2 != spec_native(key, lim, o2):
                                    bad.append((key, [iso1, iso2], lim, o2, r2, spec_native(key, lim, o2)))
    run.counters["replayed_witnesses"] += n
    name = f"histories: {n // 10} pairs (same written date and time, different offsets, opposite sides of a DST switch) judged one after the other by the same evaluator, 5 constraints"
    if not bad:
        run.ob(name, "replay", HELD)
        return
    key, hist, t, off, real, want = bad[0]
    what = f"after judging {hist[:-1]}: evaluate_{key}('{hist[-1]}') " + ("raises" if real == RAISED else f"is {'fulfilled' if real in (OK_, OK_MSG) else 'unfulfilled'}, documented: {'fulfilled' if want == OK_ else 'unfulfilled'}") + f" ({len(bad)} of {n} disagree)"
    run.ob(name, "replay", VIOLATED, detail=what)
    run.violation(name, what, {"key": key if key == "931" else "932-935", "kind": "history", "zero_offset_not_midnight": False}, {"kind": "C20-hist", "property": "C20", "fc": key, "history": hist, "t": t, "off": off})


WITNESS_STRINGS = [None, "", " ", "foo", "2022-01-01", "2022-01-01T00:00:00", "2019-12-31T25:00:00+00:00", "2022-01-01T00:00:00+0", "Z", "2022-13-01T00:00:00Z", "0000-01-01T00:00:00Z", "2022-01-01T00:00:00+24:00", "١٢", "2022-01-01T00:00:00+01:00x", "T00:00:00+01:00"]


def witnesses_only(run: Run):
    """string-level witnesses (not a claim over all strings): must be unfulfilled with a message, never raise"""
    bad = []
    for s in WITNESS_STRINGS:
        for key in KEYS:
            real, info = real_verdict(key, s)
            run.counters["replayed_witnesses"] += 1
            if real != BAD_MSG:
                bad.append((key, s, real, info))
    if bad:
        key, s, real, info = bad[0]
        what = f"evaluate_{key}({s!r}) " + (f"raises {info}" if real == RAISED else f"returns code {real} (expected unfulfilled with message)")
        run.ob("string witnesses (empty/unparsable/naive) are unfulfilled with message", "replay", VIOLATED, detail=what)
        run.violation("string witnesses", what, {"key": "93x", "kind": "string-witness", "raises": real == RAISED}, {"kind": "C20-str", "property": "C20", "fc": key, "s": s})
    else:
        run.ob(f"string witnesses ({len(WITNESS_STRINGS)} strings x 5 constraints): unfulfilled with message, no exception", "replay", HELD)


def replay(p: dict) -> dict:
    kind = p.get("kind")
    if kind == "C20-iso":
        iso, tv, ov = p["iso"], p["t"], p["off"]
        # all five constraints on one evaluator instance, in key order (as the boundary grid does): a verdict must not depend
        # on what the instance evaluated before
        for key in KEYS:
            real, info = real_verdict(key, iso)
            if real == RAISED:
                return {"outcome": "fail", "what": f"evaluate_{key}('{iso}') raises {info}"}
            if T1996 <= tv < T2038 and real != spec_native(key, tv, ov):
                return {"outcome": "fail", "what": f"evaluate_{key}('{iso}') -> code {real}, documented {spec_native(key, tv, ov)}"}
            if real not in (OK_, BAD_MSG):
                return {"outcome": "fail", "what": f"evaluate_{key}('{iso}') -> code {real}"}
        return {"outcome": "pass"}
    if kind == "C20-hist":
        real = None
        for iso in p["history"]:
            real, info = real_verdict(p["fc"], iso)
        want = spec_native(p["fc"], p["t"], p["off"])
        return {"outcome": "pass" if real == want else "fail", "what": f"after {p['history'][:-1]}: evaluate_{p['fc']}('{p['history'][-1]}') -> code {real}, documented {want}"}
    if kind == "C20-str":
        real, info = real_verdict(p["fc"], p["s"])
        return {"outcome": "pass" if real == BAD_MSG else "fail", "what": f"evaluate_{p['fc']}({p['s']!r}) -> {real} {info}"}
    return {"outcome": "harness-error", "detail": f"unknown kind {kind}"}
