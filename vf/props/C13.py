"""C13 — validation covers the AHB tree once, in order; parents dominate children.
PZ kernels (documented mapping / parent table, one query each), XH step lemmas on the real validate_* functions
(callees stubbed by their contracts), whole-tree glue with real evaluation."""
from __future__ import annotations

import z3

from vf import pyz3, xh
from vf.common import ERROR, HELD, INCONCLUSIVE, VIOLATED, Run
from vf.props import valcommon
from vf.props.C04 import common_assumptions

REQ, OPT, FORB = 0, 1, 2
RAISE_NI, RAISE_OTHER = -1, -2


def kernels(run: Run):
    from ahbicht.models.enums import ModalMark, PrefixOperator
    from ahbicht.models.validation_values import RequirementValidationValue as RVV
    from ahbicht.validation import validation as V

    run.encodes(V.map_requirement_validation_values, V.combine_requirements_of_different_levels)
    inds = [ModalMark.MUSS, ModalMark.SOLL, ModalMark.KANN, PrefixOperator.X, PrefixOperator.O, PrefixOperator.U]
    outs = [True, False, None]
    rv = [RVV.IS_REQUIRED, RVV.IS_OPTIONAL, RVV.IS_FORBIDDEN]
    i, o, s = z3.Int("ind"), z3.Int("out"), z3.Bool("soll")

    def enc(outcome):
        kind, val = outcome
        if kind == "raise":
            return z3.IntVal(RAISE_NI if val == "NotImplementedError" else RAISE_OTHER)
        if isinstance(val, pyz3.FD):
            return pyz3.fd_index_term(val, rv, RAISE_OTHER)
        for k, m in enumerate(rv):
            if val is m:
                return z3.IntVal(k)
        return z3.IntVal(RAISE_OTHER)

    try:
        interp = pyz3.Interp()
        fi, fo = pyz3.FD(inds, i), pyz3.FD(outs, o)
        interp.base = [fi.constraint(), fo.constraint()]
        paths = interp.explore(lambda: interp.call_function(V.map_requirement_validation_values, [fo, fi, s], {}))
        mapping = pyz3.outcome_term(paths, enc, z3.IntVal(RAISE_OTHER))
        run.counters["smt_queries"] += interp.queries
    except pyz3.Unsupported as u:
        run.ob("kernel map_requirement_validation_values (PZ)", "PZ", INCONCLUSIVE, detail=f"source outside PZ subset ({u}); covered by the XH step lemmas")
        mapping = None
    if mapping is not None:
        eff = z3.If(i == 1, z3.If(s, z3.IntVal(0), z3.IntVal(2)), i)  # SOLL -> MUSS / KANN
        is_kann = eff == 2
        doc = z3.If(o == 1, z3.IntVal(FORB), z3.If(o == 2, z3.If(is_kann, z3.IntVal(OPT), z3.IntVal(RAISE_NI)), z3.If(is_kann, z3.IntVal(OPT), z3.IntVal(REQ))))
        dom = [i >= 0, i < 6, o >= 0, o < 3]
        res, model, dt = pyz3.check(dom + [mapping != doc])
        run.counters["smt_queries"] += 1
        run.counters["smt_time_s"] += dt
        name = "map_requirement_validation_values == documented mapping (indicator x outcome x flag), incl. NotImplementedError for an undetermined MUSS/prefix node, no UnboundLocalError on any path"
        if res == "unsat":
            run.ob(name, "z3", HELD, time_s=round(dt, 4), bound="all 6 x 3 x 2 inputs (complete)")
        elif res == "sat":
            iv, ov, sv = model.eval(i, model_completion=True).as_long(), model.eval(o, model_completion=True).as_long(), bool(model.eval(s, model_completion=True))
            try:
                real = V.map_requirement_validation_values(outs[ov], inds[iv], sv).value
            except Exception as e:  # pylint:disable=broad-except
                real = type(e).__name__
            from vf import refval

            try:
                want = refval.map_status(inds[iv].name, outs[ov], sv)
            except refval.Undetermined:
                want = "NotImplementedError"
            run.counters["replayed_witnesses"] += 1
            if real != want:
                what = f"map_requirement_validation_values({outs[ov]}, {inds[iv].name}, soll_is_required={sv}) = {real}, documented: {want}"
                run.ob(name, "z3", VIOLATED, detail=what)
                run.violation(name, what, {"part": "kernel-map"}, {"kind": "C13-map", "property": "C13", "ind": iv, "out": ov, "soll": sv})
            else:
                run.ob(name, "z3", ERROR, detail="model did not reproduce on the real function")
        else:
            run.ob(name, "z3", INCONCLUSIVE, detail=res)
        # translation validation on all 36 inputs
        bad = 0
        for iv in range(6):
            for ov in range(3):
                for sv in (True, False):
                    r, m, _ = pyz3.check([i == iv, o == ov, s == sv, z3.Int("r") == mapping])
                    encv = m[z3.Int("r")].as_long()
                    try:
                        realv = rv.index(V.map_requirement_validation_values(outs[ov], inds[iv], sv))
                    except NotImplementedError:
                        realv = RAISE_NI
                    except Exception:  # pylint:disable=broad-except
                        realv = RAISE_OTHER
                    run.counters["replayed_witnesses"] += 1
                    bad += encv != realv
        run.ob("translation validation (map_requirement_validation_values, all 36 inputs vs the real function)", "PZ", HELD if not bad else ERROR, detail=f"{bad} mismatches")
    # combine
    p, c = z3.Int("parent"), z3.Int("child")
    pars = [None, RVV.IS_REQUIRED, RVV.IS_OPTIONAL]
    try:
        interp = pyz3.Interp()
        fp, fc = pyz3.FD(pars, p), pyz3.FD(rv, c)
        interp.base = [fp.constraint(), fc.constraint()]
        paths = interp.explore(lambda: interp.call_function(V.combine_requirements_of_different_levels, [fp, fc], {}))
        comb = pyz3.outcome_term(paths, enc, z3.IntVal(RAISE_OTHER))
        run.counters["smt_queries"] += interp.queries
        doc = z3.If(p == 2, z3.If(c == REQ, z3.IntVal(OPT), c), c)
        res, model, dt = pyz3.check([p >= 0, p < 3, c >= 0, c < 3, comb != doc])
        run.counters["smt_queries"] += 1
        name = "combine_requirements_of_different_levels == documented table (below optional nothing is required; below required / at the root the own status is kept)"
        if res == "unsat":
            run.ob(name, "z3", HELD, time_s=round(dt, 4), bound="all 3 x 3 inputs (complete)")
        elif res == "sat":
            pv, cv = model.eval(p, model_completion=True).as_long(), model.eval(c, model_completion=True).as_long()
            try:
                real = V.combine_requirements_of_different_levels(pars[pv], rv[cv]).value
            except Exception as e:  # pylint:disable=broad-except
                real = type(e).__name__
            from vf import refval

            want = refval.combine(None if pars[pv] is None else pars[pv].value, rv[cv].value)
            if real != want:
                what = f"combine_requirements_of_different_levels({pars[pv]}, {rv[cv]}) = {real}, documented table: {want}"
                run.ob(name, "z3", VIOLATED, detail=what)
                run.violation(name, what, {"part": "kernel-combine"}, {"kind": "C13-combine", "property": "C13", "parent": pv, "child": cv})
            else:
                run.ob(name, "z3", ERROR, detail="model did not reproduce")
        else:
            run.ob(name, "z3", INCONCLUSIVE, detail=res)
    except pyz3.Unsupported as u:
        run.ob("kernel combine_requirements_of_different_levels (PZ)", "PZ", INCONCLUSIVE, detail=f"source outside PZ subset ({u}); covered by the XH step lemmas")


def main(run: Run) -> int:
    from ahbicht.validation import validation as V

    run.encodes(V.validate_deep_anwendungshandbuch, V.validate_segment_group, V.validate_segment, V.get_segment_level_requirement_validation_value, V.validate_data_element, V.validate_data_element_freetext)
    kernels(run)
    jobs = valcommon.jobs("C13", run.tier, ("seg_level", "group_step", "segment_step", "deep_step", "dispatch_step", "freetext_step"))
    feats = lambda r, rep: {"part": r["fn"], "soll_flag_lost_for_data_element": ("DE1" in (rep.get("what") or "") and "soll_is_required=False" in (rep.get("what") or ""))}  # noqa: E731
    for r, j in zip(xh.run_jobs(run, "vf.harness.val_harness", jobs), jobs):
        xh.default_verdict(run, r, feats, bound=j["bound"])
    common_assumptions(run)
    run.assume(
        "step lemmas: callees are replaced in ahbicht.validation.validation's namespace by stubs that satisfy the callee's own contract (recursive calls) or return a symbolic evaluation outcome keyed by the node's expression string",
        "what evaluation delivers per node is C09's subject; the whole-tree glue uses the real evaluation",
    )
    run.outside += ["value pools beyond offered/accepted/flagged (C17)", "status suffix of nodes with invalid expressions (C16)", "AHB trees beyond the four glue trees: carried by the step lemmas"]
    run.sample({"step": "validate_segment_group(own FORBIDDEN, 2 sub-groups, 1 segment) reports the group alone and visits no child"})
    return run.finish(
        "model_checking",
        "Kernels decided completely by z3 on PZ terms; every validate_* function explored by CrossHair for all abstract inputs with callee stubs (document order, exactly once, pruning below forbidden nodes, "
        "parent dominance, FILLED/EMPTY suffix, NotImplementedError rule); whole trees with real evaluation against the reference walk.",
    )


def replay(p: dict) -> dict:
    from ahbicht.models.enums import ModalMark, PrefixOperator
    from ahbicht.models.validation_values import RequirementValidationValue as RVV
    from ahbicht.validation import validation as V
    from vf import refval

    inds = [ModalMark.MUSS, ModalMark.SOLL, ModalMark.KANN, PrefixOperator.X, PrefixOperator.O, PrefixOperator.U]
    outs = [True, False, None]
    rv = [RVV.IS_REQUIRED, RVV.IS_OPTIONAL, RVV.IS_FORBIDDEN]
    if p.get("kind") == "C13-map":
        try:
            real = V.map_requirement_validation_values(outs[p["out"]], inds[p["ind"]], p["soll"]).value
        except Exception as e:  # pylint:disable=broad-except
            real = type(e).__name__
        try:
            want = refval.map_status(inds[p["ind"]].name, outs[p["out"]], p["soll"])
        except refval.Undetermined:
            want = "NotImplementedError"
        return {"outcome": "pass" if real == want else "fail", "what": f"{real} vs documented {want}"}
    if p.get("kind") == "C13-combine":
        pars = [None, RVV.IS_REQUIRED, RVV.IS_OPTIONAL]
        try:
            real = V.combine_requirements_of_different_levels(pars[p["parent"]], rv[p["child"]]).value
        except Exception as e:  # pylint:disable=broad-except
            real = type(e).__name__
        want = refval.combine(None if pars[p["parent"]] is None else pars[p["parent"]].value, rv[p["child"]].value)
        return {"outcome": "pass" if real == want else "fail", "what": f"{real} vs documented {want}"}
    return {"outcome": "harness-error", "detail": "unknown kind"}
