"""C06 — validity is structural; validity check and evaluation agree.  XH step (raise condition + invariant),
XH+DetLoop glue on requirement_constraint_evaluation, the real is_valid_expression (plumbing lemma with stubs + end-to-end)."""
from __future__ import annotations

from vf import glue, xh
from vf.common import Run
from vf.props.C04 import common_assumptions


def main(run: Run) -> int:
    import ahbicht.content_evaluation as ce
    from ahbicht.expressions import requirement_constraint_expression_evaluation as m
    from vf.harness import valid_glue

    run.encodes(m.RequirementConstraintTransformer._or_xor_composition, m.RequirementConstraintTransformer._then_also, m.RequirementConstraintTransformer.and_composition, ce.is_valid_expression)
    feats = lambda r, rep: {"part": r["fn"], "mode": "C06"}  # noqa: E731
    alljobs = []
    for j in glue.step_jobs("C06"):
        alljobs.append(dict(j, module="vf.harness.rc_step", bound="all 21x21 abstract operand pairs of this callback partition"))
    for j in glue.glue_jobs("C06", run.tier):
        alljobs.append(dict(j, module="vf.harness.rc_glue", bound="selector-built expressions of this partition x all states"))
    # is_valid_expression: plumbing lemma (symbolic fault subset, symbolic yields)
    for a in (0, 1):
        for b in (0, 1):
            alljobs.append({"fn": "plumbing", "module": "vf.harness.valid_glue", "globals": {"FY0": a, "FY1": b}, "timeout": 400, "bound": "all 2^6 fault subsets of the 6 generated results x parse ok/fails, yields fixed per partition"})
    # end-to-end
    thorough = run.tier == "thorough"

    def e2e_jobs(g, budget):
        for k, v in g.items():
            setattr(valid_glue, k, v)
        cs = valid_glue.cases()
        out, lo, acc = [], 0, 0
        for i, c in enumerate(cs):
            acc += c[2]
            if acc >= budget or i == len(cs) - 1:
                out.append({"fn": "e2e", "globals": dict(g, LO=lo, HI=i + 1), "timeout": 1800})
                lo, acc = i + 1, 0
        return out, len(cs)

    jobs, n = e2e_jobs({"NLEAVES": 2, "NKINDS": 6 if thorough else 5, "ATTACH": 1, "YMAX": 1, "MAXW": 72 if thorough else 12}, 80 if thorough else 40)
    if thorough:
        j3, n3 = e2e_jobs({"NLEAVES": 3, "NKINDS": 3, "ATTACH": 0, "YMAX": 0, "MAXW": 54}, 80)
        jobs += j3
    for j in jobs:
        alljobs.append(dict(j, module="vf.harness.valid_glue", bound="real is_valid_expression on the AHB expressions of this partition; it enumerates all 3^m*2^n results itself"))
    for i in range(len(valid_glue.MULTI)):
        alljobs.append({"fn": "multi", "module": "vf.harness.valid_glue", "globals": {"M_LO": i, "M_HI": i + 1}, "timeout": 400, "bound": "multi-part AHB expression x all states of 2 requirement keys x format value x yield"})
    alljobs.sort(key=lambda j: -j.get("timeout", 0))
    for r, j in zip(xh.run_jobs(run, "vf.harness.rc_step", alljobs), alljobs):
        xh.default_verdict(run, r, feats, bound=j["bound"])
    run.bounds.update(glue.glue_bounds(run.tier))
    run.bounds["is_valid_expression"] = f"end-to-end: the {n} in-scope two-leaf expressions with 3^m*2^n <= {72 if thorough else 12} possible results x yields<=1" + (f"; {n3} three-leaf expressions (leaf kinds rc/hint/rc+fc, <= 54 results)" if thorough else "")
    common_assumptions(run)
    run.assume("is_valid_expression plumbing lemma: parse_expression_including_unresolved_subexpressions / evaluate_ahb_expression_tree replaced in ahbicht.content_evaluation's namespace by stubs (raise for a symbolic subset of the generated results)")
    run.outside += ["bare condition expressions without requirement indicator passed to is_valid_expression (not a documented input)", "expressions with neither requirement nor format keys (empty enumeration, see C18)"]
    run.sample({"step": "or_composition(hint, rc:FULFILLED) must raise InvalidExpressionError under every state"})
    run.sample({"e2e": "is_valid_expression('Muss ([1]u[501])[901]') == (True, None)"})
    return run.finish(
        "model_checking",
        "Raise condition decided per abstract operand pair on the real callbacks (depends on classes/neutrality only; invariant preserved), "
        "evaluation raises iff structurally invalid for all selector-built expressions x all states; is_valid_expression: plumbing lemma over "
        "all fault subsets + end-to-end on all two-leaf expressions.",
    )
