"""C14 — soll_is_required is equivalent to rewriting SOLL at every level (relational step lemmas + whole-tree glue)."""
from __future__ import annotations

from vf import xh
from vf.common import Run
from vf.props import valcommon
from vf.props.C04 import common_assumptions


def main(run: Run) -> int:
    from ahbicht.validation import validation as V

    run.encodes(V.validate_deep_anwendungshandbuch, V.validate_segment_group, V.validate_segment, V.validate_data_element, V.validate_data_element_freetext, V.get_segment_level_requirement_validation_value, V.map_requirement_validation_values)
    jobs = valcommon.jobs("C14", run.tier, ("seg_level", "group_step", "segment_step", "deep_step", "dispatch_step", "freetext_step"))
    feats = lambda r, rep: {"part": r["fn"], "flag_not_passed_to_data_elements": r["fn"] in ("segment_step", "tree_glue") and ("'de'" in (rep.get("what") or "") or "DE" in (rep.get("what") or ""))}  # noqa: E731
    for r, j in zip(xh.run_jobs(run, "vf.harness.val_harness", jobs), jobs):
        xh.default_verdict(run, r, feats, bound=j["bound"])
    common_assumptions(run)
    run.assume("relational step lemma: a node whose evaluation has indicator SOLL validated with flag f equals the node with indicator MUSS (f) / KANN (not f) validated with any flag; every validate_* function hands the flag unchanged to all callees it validates")
    run.outside += ["SOLL on value-pool entries (only 'fulfilled or not' of an entry is used there)"]
    run.sample({"relation": "validate(tree, soll_is_required=False) == validate(tree[Soll -> Kann], any flag)"})
    return run.finish(
        "model_checking",
        "CrossHair confirms the relation for every evaluation class at segment-level nodes and free-text elements (both flag values, rewritten node under both flags) and that each validate_* function "
        "passes the flag on to every child; whole trees with real expressions are validated twice (flag vs textually rewritten SOLL) and compared.",
    )
