"""C10 — resolving packages and time conditions is exact bracketed substitution (XH + DetLoop, parser concretised)."""
from __future__ import annotations

from vf import xh
from vf.common import Run
from vf.props.C04 import common_assumptions


def main(run: Run) -> int:
    from ahbicht.expressions import expression_resolver as er
    from vf.harness import resolve_harness as H

    run.encodes(er.parse_expression_including_unresolved_subexpressions, er.expand_packages, er.expand_time_conditions, er._replace_sub_coroutines_with_awaited_results, er.PackageExpansionTransformer, er.TimeConditionTransformer)
    thorough = run.tier == "thorough"
    H.LEVEL = 0  # the 3-leaf combination family (LEVEL 1, 740 expressions) is beyond the budget of either tier
    n = len(H.cases())
    jobs = []
    g = {"LEVEL": H.LEVEL, "NPOOL": 3, "YMAX": 1, "YOCC": 3 if thorough else 2}
    cs = H.cases()

    def weight(text, flags):
        occ = H.pkg_occurrences(text) if flags & 1 else []
        return (g["NPOOL"] ** len(set(occ))) * ((g["YMAX"] + 1) ** min(len(occ), g["YOCC"]))

    def parts(flags, budget, stride=1):
        lo, acc = 0, 0
        for i, t in enumerate(cs):
            acc += weight(t, flags)
            if acc >= budget or i == n - 1:
                yield lo, i + 1
                lo, acc = i + 1, 0

    for k, (lo, hi) in enumerate(parts(3, 60)):
        jobs.append({"fn": "resolve", "globals": dict(g, FLAGS=3, LO=lo, HI=hi, HISTORY=1 if (thorough or k % 2 == 0) else 0), "timeout": 900, "bound": "expressions of this partition x package tables x resolver yields; resolve_packages=True, replace_time_conditions=True" + ("; each resolution preceded by one with another table on the same resolver instance (real caches)" if (thorough or k % 2 == 0) else "")})
    # the other flag combinations: every 3rd partition in the quick tier, all in the thorough tier
    for fl in (1, 2, 0):
        for k, (lo, hi) in enumerate(parts(fl, 90)):
            if thorough or k % 4 == fl:
                jobs.append({"fn": "resolve", "globals": dict(g, FLAGS=fl, LO=lo, HI=hi, HISTORY=1 if thorough else 0), "timeout": 900, "bound": f"flags resolve_packages={bool(fl & 1)}, replace_time_conditions={bool(fl & 2)}"})
    jobs.sort(key=lambda j: -(j["globals"]["HI"] - j["globals"]["LO"]))
    from vf.harness import resolve_harness as RH

    for e1 in range(len(RH.CER_EXPRS) if thorough else 2):
        for ta in range(len(RH.CER_TABLES) if thorough else 3):
            jobs.append({"fn": "cer_history", "globals": {"FIXH": (e1, ta)}, "timeout": 600, "bound": "shipped ContentEvaluationResult-based package resolver, one instance: resolution (expression, package table of the current result) followed by a second one (4 expressions x 5 tables incl. no packages x results without id / with two different ids)"})
    feats = lambda r, rep: {"part": r["fn"]}  # noqa: E731
    for r, j in zip(xh.run_jobs(run, "vf.harness.resolve_harness", jobs), jobs):
        xh.default_verdict(run, r, feats, bound=j["bound"])
    run.bounds["expressions"] = f"{n} well-formed expressions: every 1- and 2-leaf combination of (key, [1P], [2P], [3P0..4], [UB1..3]) with U/O/X, hand-picked 3-leaf shapes (repeated and neighbouring abbreviations, nesting), bare / behind 5 indicator spellings / inside a 3-part AHB expression" + ("; all 3-leaf combinations of 4 leaf kinds" if thorough else "")
    run.bounds["package_tables"] = f"each occurring package key maps to one of {g['NPOOL']} entries of (simple key, expression containing UB3, unknown, expression containing another package, ...); resolver yields <= {g['YMAX']} for the first {g['YOCC']} occurrences (symbolic)"
    common_assumptions(run)
    run.outside += ["expressions beyond the stated shapes", "package keys other than 1P/2P/3P (keys are labels for the resolver)"]
    run.sample({"case": "[1P] O [5] U [2P] with {1P: '[10]', 2P: '[UB3] O [13]'} == parse('([10]) O [5] U (([932][492]X[934][493]) O [13])')"})
    return run.finish(
        "model_checking",
        "CrossHair explores, for every selector-built expression, all package tables from the pool (symbolic selectors) and all resolver completion orders (symbolic yields) through the real "
        "parse_expression_including_unresolved_subexpressions on DetLoop; the resolved tree must equal the real parser's tree of the textually substituted string.",
    )
