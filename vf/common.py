"""
Shared plumbing for all checks: obligations, verdicts, replay files, known findings, evidence.

Exit codes (DESIGN §4.1):
  0  every obligation explored held (or every reproduced counterexample is a listed KNOWN-FINDING)
  1  after "VIOLATION property=<id> replay=<path>": a counterexample that reproduced on the real code natively
  2  harness error (set-up failed, translation validation failed, counterexample did not reproduce, engine crashed)
"""

from __future__ import annotations

import hashlib
import inspect
import json
import os
import sys
import time
from pathlib import Path
from typing import Any, Callable, Dict, List, Optional

VERIF = Path(os.environ.get("VERIF_ROOT", "/verif"))
REPO = Path(os.environ.get("VERIF_REPO", "/repo"))
EVIDENCE_DIR = VERIF / "evidence"
REPLAY_DIR = VERIF / "replays"
WORK_DIR = VERIF / ".work"
KNOWN_FINDINGS = VERIF / "known_findings.json"

EXIT_OK, EXIT_VIOLATION, EXIT_HARNESS = 0, 1, 2

HELD, VIOLATED, INCONCLUSIVE, ERROR = "held", "violated", "inconclusive", "error"

NCPU = min(16, os.cpu_count() or 1)


def src_hash(obj: Any) -> str:
    """sha256 of the current source text of a function/class/module of /repo (encoding regenerated every run)."""
    try:
        return hashlib.sha256(inspect.getsource(obj).encode("utf-8")).hexdigest()[:16]
    except (OSError, TypeError):
        return "unavailable"


def qualname(obj: Any) -> str:
    mod = getattr(obj, "__module__", None) or getattr(obj, "__name__", "?")
    qn = getattr(obj, "__qualname__", None)
    return f"{mod}.{qn}" if qn else str(mod)


def load_known_findings() -> List[dict]:
    if not KNOWN_FINDINGS.exists():
        return []
    return json.loads(KNOWN_FINDINGS.read_text())["findings"]


class Run:
    """Collects what one invocation of a check did and turns it into stdout lines, evidence and an exit code."""

    def __init__(self, pid: str, tier: str, seed: int):
        self.pid, self.tier, self.seed = pid, tier, seed
        self.t0 = time.time()
        self.obligations: List[dict] = []
        self.violations: List[dict] = []
        self.errors: List[str] = []
        self.functions: Dict[str, str] = {}
        self.assumptions: List[str] = []
        self.samples: List[Any] = []
        self.bounds: Dict[str, Any] = {}
        self.outside: List[str] = []
        self.counters: Dict[str, float] = {
            "smt_queries": 0,
            "smt_time_s": 0.0,
            "xh_conditions": 0,
            "xh_paths": 0,
            "xh_paths_reaching_assertion": 0,
            "xh_cpu_s": 0.0,
            "replayed_witnesses": 0,
        }
        self.engines: Dict[str, str] = {}
        self.work = WORK_DIR / pid
        self.work.mkdir(parents=True, exist_ok=True)

    # ------------------------------------------------------------------ recording
    def encodes(self, *objs: Any) -> None:
        for o in objs:
            self.functions[qualname(o)] = src_hash(o)

    def assume(self, *texts: str) -> None:
        for t in texts:
            if t not in self.assumptions:
                self.assumptions.append(t)

    def sample(self, s: Any) -> None:
        if len(self.samples) < 12:
            self.samples.append(s)

    def ob(self, name: str, engine: str, verdict: str, **kw: Any) -> None:
        rec = {"name": name, "engine": engine, "verdict": verdict}
        rec.update(kw)
        self.obligations.append(rec)
        if verdict == INCONCLUSIVE:
            print(f"INCONCLUSIVE condition={name} {kw.get('detail', '')}".rstrip(), flush=True)
        if verdict == ERROR:
            self.errors.append(f"{name}: {kw.get('detail', '')}")

    def error(self, text: str) -> None:
        self.errors.append(text)
        print(f"HARNESS-ERROR {text}", file=sys.stderr, flush=True)

    def violation(self, name: str, what: str, features: Dict[str, Any], replay: Dict[str, Any]) -> None:
        """A counterexample that HAS ALREADY BEEN REPRODUCED natively against the real code."""
        self.violations.append({"name": name, "what": what, "features": features, "replay": replay})

    # ------------------------------------------------------------------ finishing
    def _match_known(self, v: dict, findings: List[dict]) -> Optional[dict]:
        for f in findings:
            if f.get("status") != "open" or f.get("property") != self.pid:
                continue
            m = f.get("match", {})
            if m and all(v["features"].get(k) == val for k, val in m.items()):
                return f
        return None

    def finish(self, level: str, explanation: str, exhaustive: bool = False) -> int:
        from vf import crosscheck

        if crosscheck.ENABLED:
            self.engines["cvc5"] = f"cvc5 1.0.3 binary on SMT-LIB2 exports of the z3 queries: {crosscheck.STATS}"
            self.counters["cvc5_queries"] = crosscheck.STATS["queries"]
            self.counters["cvc5_agree"] = crosscheck.STATS["agree"]
            for dis in crosscheck.DISAGREEMENTS:
                self.error(f"solver disagreement: {dis}")
        findings = load_known_findings()
        new_violations, known_hits = [], []
        for v in self.violations:
            f = self._match_known(v, findings)
            (known_hits if f else new_violations).append((v, f))
        seen_known = set()
        for v, f in known_hits:
            key = json.dumps(f["match"], sort_keys=True)
            if key not in seen_known:
                seen_known.add(key)
                print(f"KNOWN-FINDING: property={self.pid} {f['what']}", flush=True)
        replay_paths = []
        seen_sig = set()
        for v, _ in new_violations:
            sig = hashlib.sha256(json.dumps(v["features"], sort_keys=True, default=str).encode()).hexdigest()[:10]
            if sig in seen_sig:
                continue
            seen_sig.add(sig)
            REPLAY_DIR.mkdir(exist_ok=True)
            path = REPLAY_DIR / f"{self.pid}-{sig}.json"
            payload = {"property": self.pid, "obligation": v["name"], "what": v["what"], "features": v["features"]}
            payload.update(v["replay"])
            path.write_text(json.dumps(payload, indent=1, ensure_ascii=False, default=str))
            replay_paths.append(str(path))
            print(f"VIOLATION property={self.pid} replay={path}", flush=True)
            print(f"  what: {v['what']}", flush=True)

        held = sum(1 for o in self.obligations if o["verdict"] == HELD)
        inconclusive = [o["name"] for o in self.obligations if o["verdict"] == INCONCLUSIVE]
        evaluations = int(self.counters["smt_queries"] + self.counters["xh_paths"] + self.counters["replayed_witnesses"])
        nontrivial = int(
            self.counters["xh_paths_reaching_assertion"]
            + sum(1 for o in self.obligations if o["verdict"] == HELD and o.get("engine", "").startswith(("z3", "smt")))
        )
        wall = time.time() - self.t0
        coverage = {
            "evaluations": max(evaluations, 0),
            "distinct_nontrivial": nontrivial,
            "rule": (
                "evaluations = SMT queries discharged + CrossHair paths explored + witnesses replayed on the real code; "
                "distinct_nontrivial = CrossHair paths that ran the code under test to the harness assertion "
                "(distinct by construction: CrossHair never repeats a decision sequence) + SMT lemmas answered unsat "
                "whose vacuity twin was sat"
            ),
            "samples": self.samples[:12] or ["(no sample recorded)"],
            "explanation": explanation,
            "exhaustive": bool(exhaustive and not inconclusive),
            "bounds": self.bounds,
            "outside_the_claim": self.outside,
            "functions_encoded": self.functions,
            "engines": self.engines,
            "obligations": len(self.obligations),
            "discharged": held,
            "inconclusive": inconclusive,
            "obligation_list": [
                {k: o[k] for k in o if k in ("name", "engine", "verdict", "paths", "time_s", "bound", "detail", "confirmed_paths")}
                for o in self.obligations
            ],
            "counters": {k: (round(v, 3) if isinstance(v, float) else v) for k, v in self.counters.items()},
            "known_findings_hit": sorted(seen_known),
            "replays_written": replay_paths,
        }
        evidence = {
            "property_id": self.pid,
            "tier": self.tier,
            "seed": self.seed,
            "level": level,
            "coverage": coverage,
            "assumptions": self.assumptions,
            "wall_s": round(wall, 2),
            "violations": len(replay_paths),
        }
        EVIDENCE_DIR.mkdir(exist_ok=True)
        (EVIDENCE_DIR / f"{self.pid}.json").write_text(json.dumps(evidence, indent=1, ensure_ascii=False, default=str))
        print(
            f"SUMMARY property={self.pid} tier={self.tier} obligations={len(self.obligations)} held={held} "
            f"inconclusive={len(inconclusive)} violations={len(replay_paths)} known={len(seen_known)} "
            f"errors={len(self.errors)} wall={wall:.1f}s",
            flush=True,
        )
        if replay_paths:
            return EXIT_VIOLATION
        if self.errors:
            for e in self.errors[:20]:
                print(f"HARNESS-ERROR {e[:1500]}", flush=True)
            return EXIT_HARNESS
        return EXIT_OK


def timed(fn: Callable, *a: Any, **k: Any):
    t = time.time()
    r = fn(*a, **k)
    return r, time.time() - t
