"""
Harness-side support, importable both under CrossHair tracing and natively (replay).

 * nt()        : context manager — crosshair.tracers.NoTracing() while tracing, no-op otherwise
 * R(x)        : deep-realise a (possibly symbolic) value; identity natively
 * reached()   : marks "the code under test ran to the point where the oracle is applied".  In TWIN mode
                 (reachability twin, DESIGN §4.2) it raises Reached so that CrossHair reports the path.
 * fail(...)   : record the realised inputs of a failing path (written by the worker to a file), return False
 * HarnessError: raised by set-up / oracle code; the driver maps it to exit 2, never to a violation
"""

from __future__ import annotations

import contextlib
from typing import Any, Dict, List

try:
    from crosshair.core import deep_realize, realize
    from crosshair.tracers import NoTracing, ResumedTracing, is_tracing
except ImportError:  # replay without crosshair
    deep_realize = realize = lambda x: x  # type: ignore

    def is_tracing():  # type: ignore
        return False

    NoTracing = ResumedTracing = contextlib.nullcontext  # type: ignore

TWIN = False
REAL_LRU = False  # True: functools.lru_cache really caches while tracing (CrossHair's default is to bypass every lru_cache)
REACHED = 0
FAILS: List[Dict[str, Any]] = []
NOTES: List[Any] = []


class Reached(Exception):
    """raised by reached() in twin mode"""


class HarnessError(Exception):
    """set-up / oracle problem — not a property violation"""


class Inconclusive(Exception):
    """the code under test no longer has the structure this lemma is stated about (e.g. a refactoring): the obligation is
    reported INCONCLUSIVE (never a verdict, never an error); the end-to-end harnesses of the same property still decide"""


def tracing() -> bool:
    try:
        return bool(is_tracing())
    except Exception:  # pylint:disable=broad-except
        return False


@contextlib.contextmanager
def nt():
    if tracing():
        with NoTracing():
            yield
    else:
        yield


@contextlib.contextmanager
def resumed():
    """inside nt(): go back to tracing (used by proxies that must call back into traced code)"""
    if tracing():
        yield
    else:
        try:
            with ResumedTracing():
                yield
        except Exception:  # not inside a NoTracing block of a traced run
            raise


def R(x: Any) -> Any:
    if tracing():
        return deep_realize(x)
    return x


def pick(sym: Any, lo: int, hi: int) -> int:
    """concrete value of a symbolic int known to lie in [lo, hi), found by comparisons (binary search) instead of
    realize(): CrossHair counts realisations per argument and then 'prematurely realises' that argument to arbitrary
    model values before the precondition is checked, wasting most iterations."""
    if not tracing():
        return int(sym)
    a, b = lo, hi
    while b - a > 1:
        mid = (a + b) // 2
        if sym < mid:
            b = mid
        else:
            a = mid
    return a


def reached() -> None:
    global REACHED
    REACHED += 1
    if TWIN:
        raise Reached("reachability twin: the assertion point is reachable")


def fail(what: str, **inputs: Any) -> bool:
    """record a failing path; always returns False so that a harness can `return xs.fail(...)`"""
    data = R(inputs)
    msg = R(what)
    with nt():
        FAILS.append({"what": str(msg), "inputs": _jsonable(data)})
    return False


def note(x: Any) -> None:
    data = R(x)
    with nt():
        if len(NOTES) < 50:
            NOTES.append(_jsonable(data))


def _jsonable(x: Any) -> Any:
    import enum

    if isinstance(x, enum.Enum):
        return x.name
    if isinstance(x, (str, int, float, bool)) or x is None:
        return x
    if isinstance(x, dict):
        return {str(k): _jsonable(v) for k, v in x.items()}
    if isinstance(x, (list, tuple, set, frozenset)):
        return [_jsonable(v) for v in x]
    return repr(x)


def install_real_lru_patch() -> None:
    """Replace CrossHair's registration for functools._lru_cache_wrapper.__call__ (which skips the cache) by one that, when
    xs.REAL_LRU is set, calls the real C wrapper untraced on realised arguments; otherwise CrossHair's behaviour is kept."""
    try:
        from functools import _lru_cache_wrapper

        import crosshair.core_and_libs  # noqa: F401  (registers CrossHair's library patches)
        from crosshair import core as _core
    except ImportError:
        return
    reg = _core._PATCH_REGISTRATIONS  # pylint:disable=protected-access
    key = _lru_cache_wrapper.__call__
    original = reg.get(key)
    if original is None or getattr(original, "_vf_patched", False):
        return

    def call(self, *a, **kw):
        if not REAL_LRU:
            return original(self, *a, **kw)
        a, kw = R(a), R(kw)
        exc = None
        res = None
        with nt():
            try:
                res = _lru_cache_wrapper.__call__(self, *a, **kw)
            except Exception as e:  # pylint:disable=broad-except
                exc = e
        if exc is not None:
            raise exc
        return res

    call._vf_patched = True  # type: ignore[attr-defined]
    reg[key] = call


def clear_ahbicht_caches() -> None:
    """cache_clear() on every lru_cached callable reachable from the ahbicht modules (module attributes and closure cells)"""
    import sys

    with nt():
        seen = set()
        for name, mod in list(sys.modules.items()):
            if not name.startswith("ahbicht") or mod is None:
                continue
            for v in list(vars(mod).values()):
                for cand in [v] + [c.cell_contents for c in (getattr(v, "__closure__", None) or ()) if _cell_ok(c)]:
                    cc = getattr(cand, "cache_clear", None)
                    if callable(cc) and id(cand) not in seen:
                        seen.add(id(cand))
                        try:
                            cc()
                        except Exception:  # pylint:disable=broad-except
                            pass


def _cell_ok(c) -> bool:
    try:
        c.cell_contents
        return True
    except ValueError:
        return False


# ---------------------------------------------------------------------------------------------------------------------
# Paths of one CrossHair condition run in ONE worker process.  Module-level memo tables of the code under test (a dict in
# a module, a lazily filled class attribute) would carry what one path did into the next one; a counterexample found that
# way does not reproduce on its own.  reset_module_state() puts every module-level / class-level container of the ahbicht
# modules back to what it was right after import.  A harness calls it (via path_start) ONCE at the beginning of a path —
# never in the middle, so that histories inside a path stay intact.
# ---------------------------------------------------------------------------------------------------------------------
_SNAPSHOT: Dict[Any, Any] = {}


def _state_holders():
    import sys

    for name, mod in list(sys.modules.items()):
        if not name.startswith("ahbicht") or mod is None:
            continue
        yield mod
        for v in list(vars(mod).values()):
            if isinstance(v, type) and getattr(v, "__module__", "") == name:
                yield v


def _snap_value(v):
    import copy

    if isinstance(v, (dict, list, set)):
        try:
            return ("container", copy.copy(v))
        except Exception:  # pylint:disable=broad-except
            return None
    if v is None or isinstance(v, (int, str, bool, float, tuple, frozenset)):
        return ("value", v)
    return None


def snapshot_module_state() -> None:
    with nt():
        for holder in _state_holders():
            for attr, v in list(vars(holder).items()):
                if attr.startswith("__") and attr.endswith("__"):
                    continue
                if (id(holder), attr) in _SNAPSHOT:
                    continue  # first sighting wins
                snap = _snap_value(v)
                if snap is not None:
                    _SNAPSHOT[(id(holder), attr)] = (holder, v if snap[0] == "container" else None, snap)


def reset_module_state() -> None:
    if not _SNAPSHOT:
        snapshot_module_state()
        return
    with nt():
        for (_hid, attr), (holder, obj, snap) in _SNAPSHOT.items():
            kind, val = snap
            try:
                cur = vars(holder).get(attr, _SNAPSHOT)
                if kind == "container":
                    if cur is not obj:
                        setattr(holder, attr, obj)  # rebound: put the original object back ...
                    if isinstance(obj, dict):
                        if obj != val:
                            obj.clear()
                            obj.update(val)
                    elif isinstance(obj, list):
                        if obj != val:
                            obj[:] = val
                    elif obj != val:
                        obj.clear()
                        obj.update(val)
                elif cur is not val and cur != val:
                    setattr(holder, attr, val)  # e.g. a lazily filled class attribute that was None after import
            except Exception:  # pylint:disable=broad-except
                continue
    snapshot_module_state()  # modules imported since the last call: remember them as they are now


def path_start(real_lru: bool = False) -> None:
    """beginning of a harness path: code-under-test state as right after import (memo tables, lru caches)"""
    global REAL_LRU
    REAL_LRU = real_lru
    reset_module_state()
    clear_ahbicht_caches()
