"""
Harness-side support, importable both under CrossHair tracing and natively (replay).

 * nt()        : context manager — crosshair.tracers.NoTracing() while tracing, no-op otherwise
 * R(x)        : deep-realise a (possibly symbolic) value; identity natively
 * reached()   : marks "the code under test ran to the point where the oracle is applied".  In TWIN mode
                 (reachability twin, DESIGN §4.2) it raises Reached so that CrossHair reports the path.
 * fail(...)   : record the realised inputs of a failing path (written by the worker to a file), return False
 * HarnessError: raised by set-up / oracle code; the driver maps it to exit 2, never to a violation
"""

from __future__ import annotations

import contextlib
from typing import Any, Dict, List

try:
    from crosshair.core import deep_realize, realize
    from crosshair.tracers import NoTracing, ResumedTracing, is_tracing
except ImportError:  # replay without crosshair
    deep_realize = realize = lambda x: x  # type: ignore

    def is_tracing():  # type: ignore
        return False

    NoTracing = ResumedTracing = contextlib.nullcontext  # type: ignore

TWIN = False
REACHED = 0
FAILS: List[Dict[str, Any]] = []
NOTES: List[Any] = []


class Reached(Exception):
    """raised by reached() in twin mode"""


class HarnessError(Exception):
    """set-up / oracle problem — not a property violation"""


def tracing() -> bool:
    try:
        return bool(is_tracing())
    except Exception:  # pylint:disable=broad-except
        return False


@contextlib.contextmanager
def nt():
    if tracing():
        with NoTracing():
            yield
    else:
        yield


@contextlib.contextmanager
def resumed():
    """inside nt(): go back to tracing (used by proxies that must call back into traced code)"""
    if tracing():
        yield
    else:
        try:
            with ResumedTracing():
                yield
        except Exception:  # not inside a NoTracing block of a traced run
            raise


def R(x: Any) -> Any:
    if tracing():
        return deep_realize(x)
    return x


def pick(sym: Any, lo: int, hi: int) -> int:
    """concrete value of a symbolic int known to lie in [lo, hi), found by comparisons (binary search) instead of
    realize(): CrossHair counts realisations per argument and then 'prematurely realises' that argument to arbitrary
    model values before the precondition is checked, wasting most iterations."""
    if not tracing():
        return int(sym)
    a, b = lo, hi
    while b - a > 1:
        mid = (a + b) // 2
        if sym < mid:
            b = mid
        else:
            a = mid
    return a


def reached() -> None:
    global REACHED
    REACHED += 1
    if TWIN:
        raise Reached("reachability twin: the assertion point is reachable")


def fail(what: str, **inputs: Any) -> bool:
    """record a failing path; always returns False so that a harness can `return xs.fail(...)`"""
    data = R(inputs)
    msg = R(what)
    with nt():
        FAILS.append({"what": str(msg), "inputs": _jsonable(data)})
    return False


def note(x: Any) -> None:
    data = R(x)
    with nt():
        if len(NOTES) < 50:
            NOTES.append(_jsonable(data))


def _jsonable(x: Any) -> Any:
    import enum

    if isinstance(x, enum.Enum):
        return x.name
    if isinstance(x, (str, int, float, bool)) or x is None:
        return x
    if isinstance(x, dict):
        return {str(k): _jsonable(v) for k, v in x.items()}
    if isinstance(x, (list, tuple, set, frozenset)):
        return [_jsonable(v) for v in x]
    return repr(x)
