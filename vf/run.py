"""Entry point: python -m vf.run <ID> <quick|thorough>"""
import importlib
import logging
import os
import shutil
import sys
import traceback

from vf.common import EXIT_HARNESS, Run


def main(argv):
    if len(argv) < 2:
        print("usage: check <ID> <quick|thorough>", file=sys.stderr)
        return EXIT_HARNESS
    pid = argv[0]
    tier = argv[1] if len(argv) > 1 else os.environ.get("VERIF_TIER", "quick")
    if tier not in ("quick", "thorough"):
        tier = "quick"
    try:
        seed = int(os.environ.get("VERIF_SEED", "0"))
    except ValueError:
        seed = 0
    logging.disable(logging.CRITICAL)
    run = Run(pid, tier, seed)
    try:
        mod = importlib.import_module(f"vf.props.{pid}")
        code = mod.main(run)
    except Exception:  # pylint: disable=broad-except
        traceback.print_exc()
        print(f"HARNESS-ERROR check {pid} crashed (see traceback on stderr)")
        code = EXIT_HARNESS
    finally:
        shutil.rmtree(run.work, ignore_errors=True)
    return code


if __name__ == "__main__":
    sys.exit(main(sys.argv[1:]))
