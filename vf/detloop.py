"""
DetLoop — a clock-free, deterministic asyncio event loop that CrossHair can execute symbolically.

* FIFO ready queue of asyncio Handles; no selector, no time, no threads (call_later/call_at are refused).
* create_task -> the stdlib's pure-Python Task (asyncio.tasks._PyTask), create_future -> _PyFuture, so that the
  real asyncio.gather / asyncio.sleep(0) / contextvars copy-on-task-creation run under CrossHair's tracer.
* run(coro): drives the root task to completion and returns its result / re-raises its exception (including
  BaseExceptions such as ahbicht's InvalidExpressionError and CrossHair's own control-flow exceptions).

Assumed contract (DESIGN §3.3): a conforming loop runs callbacks FIFO; Task copies the current context at creation;
gather returns results in argument order.
"""

from __future__ import annotations

import asyncio
import contextvars
from asyncio import events, futures, tasks
from typing import Any, Awaitable, List

_PyTask = tasks._PyTask  # pylint:disable=protected-access
_PyFuture = futures._PyFuture  # pylint:disable=protected-access


class Stuck(Exception):
    """the root task did not finish although nothing is scheduled (deadlock)"""


class DetLoop(asyncio.AbstractEventLoop):
    def __init__(self):
        self._ready: List[events.Handle] = []
        self._closed = False
        self._debug = False
        self.steps = 0
        self._exc = None

    # -- scheduling
    def call_soon(self, callback, *args, context=None):
        h = events.Handle(callback, args, self, context)
        self._ready.append(h)
        return h

    call_soon_threadsafe = call_soon

    def call_later(self, delay, callback, *args, context=None):
        if delay == 0:
            return self.call_soon(callback, *args, context=context)
        raise NotImplementedError("DetLoop has no clock")

    def call_at(self, when, callback, *args, context=None):
        raise NotImplementedError("DetLoop has no clock")

    def time(self):
        return 0.0

    # -- factories
    def create_future(self):
        return _PyFuture(loop=self)

    def create_task(self, coro, *, name=None, context=None):
        if context is None:
            return _PyTask(coro, loop=self, name=name)
        return _PyTask(coro, loop=self, name=name, context=context)

    # -- state
    def is_running(self):
        return True

    def is_closed(self):
        return self._closed

    def close(self):
        self._closed = True

    def get_debug(self):
        return False

    def set_debug(self, enabled):
        pass

    def call_exception_handler(self, context):
        exc = context.get("exception")
        if exc is not None and self._exc is None:
            self._exc = exc

    def default_exception_handler(self, context):
        self.call_exception_handler(context)

    def _timer_handle_cancelled(self, handle):
        pass

    # -- driver
    def run(self, awaitable: Awaitable[Any], max_steps: int = 200000) -> Any:
        old = events._get_running_loop()  # pylint:disable=protected-access
        events._set_running_loop(self)  # pylint:disable=protected-access
        # code under test that says asyncio.Task / asyncio.Future must see the classes this loop hands out
        saved = (asyncio.Task, asyncio.Future, tasks.Task, futures.Future)
        asyncio.Task = tasks.Task = _PyTask
        asyncio.Future = futures.Future = _PyFuture
        try:
            root = self.create_task(_wrap(awaitable))
            while not root.done():
                if not self._ready:
                    raise Stuck("root task pending but the ready queue is empty")
                h = self._ready.pop(0)
                self.steps += 1
                if self.steps > max_steps:
                    raise Stuck(f"more than {max_steps} loop steps")
                if not h._cancelled:  # pylint:disable=protected-access
                    h._run()  # pylint:disable=protected-access
            # let "done callbacks" scheduled by the last step run (gather bookkeeping); bounded
            drain = 0
            while self._ready and drain < 1000:
                h = self._ready.pop(0)
                drain += 1
                if not h._cancelled:  # pylint:disable=protected-access
                    h._run()  # pylint:disable=protected-access
            if root.cancelled():
                raise asyncio.CancelledError()
            exc = root.exception()
            if exc is not None:
                raise exc
            return root.result()
        finally:
            asyncio.Task, asyncio.Future, tasks.Task, futures.Future = saved
            events._set_running_loop(old)  # pylint:disable=protected-access


async def _wrap(awaitable):
    return await awaitable


def _tracing() -> bool:
    try:
        from crosshair.tracers import is_tracing

        return bool(is_tracing())
    except Exception:  # pylint:disable=broad-except
        return False


def run(awaitable: Awaitable[Any]) -> Any:
    """Under CrossHair: run on a fresh DetLoop in a fresh copy of the current context (like asyncio.run does).
    Natively (replay of a counterexample, DESIGN §4.3): run on a REAL asyncio event loop, so that a counterexample only
    counts if the real loop (C-accelerated Task/Future, selector loop) shows it too."""
    ctx = contextvars.copy_context()
    if _tracing():
        return ctx.run(DetLoop().run, awaitable)

    def real():
        loop = asyncio.new_event_loop()
        try:
            return loop.run_until_complete(awaitable)
        finally:
            try:
                loop.run_until_complete(loop.shutdown_asyncgens())
            finally:
                loop.close()

    return ctx.run(real)


async def yields(n: int) -> None:
    """give control back to the loop n times"""
    for _ in range(n):
        await asyncio.sleep(0)
