"""
Python regular expressions (sre_parse trees) -> z3 regular-expression terms; terminal lemmas.

Character level: every single-character node of the parsed pattern (literal, negated literal, set, category, '.') is
compiled ON ITS OWN by the live `re` engine with the flags in force at that node and run once over the string of all
1 114 112 code points (`findall`), so the class of characters it matches is exactly CPython's — including Unicode
case-insensitive matching ((?i:k) also matches U+212A KELVIN SIGN, (?i:s) also U+017F LONG S) and the Unicode meaning
of \\d, \\s, \\w.  That table is a static precomputation; the language-level statement (concatenation, alternation,
repetition; no length bound) is what z3's regex theory decides.
Alphabet bound of every string-level lemma: code points U+0000..U+2FFFF (z3's character sort); classes that have
members above that are recorded in NOTES (Unicode 15 has no cased letter, digit or white space there).
Look-around assertions cannot be expressed in z3's regex theory -> Unsupported.
"""

from __future__ import annotations

import re
import time
from typing import Optional

import z3

try:
    import re._compiler as sre_compile  # py3.11+
    import re._constants as sre_c
    import re._parser as sre_parse
except ImportError:  # pragma: no cover
    import sre_compile
    import sre_constants as sre_c
    import sre_parse

ZMAX = 0x2FFFF
BOUND = "all strings over code points U+0000..U+2FFFF (z3's character sort), no length bound; character classes taken from the live re engine (Unicode case folding included)"
NOTES = []


class Unsupported(Exception):
    pass


WS_CHARS = " \t\n\r\x0b\x0c"

_ALLCHARS = None
_CLASS_CACHE = {}
_FLAGMASK = re.IGNORECASE | re.ASCII | re.DOTALL | re.MULTILINE | re.UNICODE


def _ch(c: str):
    return z3.Re(z3.StringVal(c))


def _union(parts):
    parts = list(parts)
    if not parts:
        return z3.Empty(z3.ReSort(z3.StringSort()))
    if len(parts) == 1:
        return parts[0]
    return z3.Union(*parts)


def _range(lo: int, hi: int):
    if lo == hi:
        return _ch(chr(lo))
    return z3.Range(chr(lo), chr(hi))


def char_class(node, flags: int):
    """sorted list of (lo, hi) code-point ranges that the single-character node matches under `flags`, by the live engine"""
    global _ALLCHARS
    key = (repr(node), flags & _FLAGMASK)
    if key in _CLASS_CACHE:
        return _CLASS_CACHE[key]
    if _ALLCHARS is None:
        _ALLCHARS = "".join(map(chr, range(0x110000)))
    state = sre_parse.State()
    state.flags = flags & _FLAGMASK
    if not state.flags & re.ASCII:
        state.flags |= re.UNICODE
    sp = sre_parse.SubPattern(state, [node])
    try:
        pat = sre_compile.compile(sp, state.flags)
    except Exception as e:  # pylint:disable=broad-except
        raise Unsupported(f"cannot compile node {node!r}: {e}") from e
    cps = [ord(c) for c in pat.findall(_ALLCHARS)]
    ranges = []
    for cp in cps:
        if ranges and ranges[-1][1] == cp - 1:
            ranges[-1][1] = cp
        else:
            ranges.append([cp, cp])
    above = sum(hi - max(lo, ZMAX + 1) + 1 for lo, hi in ranges if hi > ZMAX)
    if 0 < above < 0x110000 - ZMAX - 1:
        NOTES.append(f"class {node!r} has {above} members above U+2FFFF (outside the alphabet bound)")
    out = [(lo, min(hi, ZMAX)) for lo, hi in ranges if lo <= ZMAX]
    _CLASS_CACHE[key] = out
    return out


def _class_re(node, flags: int):
    return _union(_range(lo, hi) for lo, hi in char_class(node, flags))


def _seq(parts):
    parts = list(parts)
    if not parts:
        return z3.Re(z3.StringVal(""))
    if len(parts) == 1:
        return parts[0]
    return z3.Concat(*parts)


def _conv(sub, flags: int):
    out = []
    for node in sub:
        op, av = node
        if op in (sre_c.LITERAL, sre_c.NOT_LITERAL, sre_c.ANY, sre_c.IN, sre_c.CATEGORY):
            out.append(_class_re(node, flags))
        elif op == sre_c.BRANCH:
            out.append(_union(_conv(b, flags) for b in av[1]))
        elif op == sre_c.SUBPATTERN:
            _group, add_flags, del_flags, p = av
            sub_flags = flags & ~(re.ASCII | re.LOCALE | re.UNICODE) if add_flags & (re.ASCII | re.LOCALE | re.UNICODE) else flags  # sre_compile._combine_flags
            out.append(_conv(p, (sub_flags | add_flags) & ~del_flags))
        elif op in (sre_c.MAX_REPEAT, sre_c.MIN_REPEAT):
            lo, hi, p = av
            inner = _conv(p, flags)
            if hi == sre_c.MAXREPEAT:
                if lo == 0:
                    out.append(z3.Star(inner))
                elif lo == 1:
                    out.append(z3.Plus(inner))
                else:
                    out.append(z3.Concat(z3.Loop(inner, lo, lo), z3.Star(inner)))
            else:
                out.append(z3.Loop(inner, lo, hi))
        elif op == sre_c.AT:
            if av in (sre_c.AT_BEGINNING, sre_c.AT_BEGINNING_STRING, sre_c.AT_END, sre_c.AT_END_STRING) and not flags & re.MULTILINE:
                continue  # full-match semantics
            raise Unsupported(f"anchor {av}")
        elif op in (sre_c.ASSERT, sre_c.ASSERT_NOT):
            raise Unsupported("look-around assertion")
        else:
            raise Unsupported(f"regex op {op}")
    return _seq(out)


def to_z3(pattern: str, flags: int = 0):
    """z3 RE of the full-match language of a Python str pattern (exact character classes, see module docstring)"""
    tree = sre_parse.parse(pattern, flags)
    return _conv(tree, flags | tree.state.flags)


def alphabet_re():
    """every string z3 can represent (code points <= U+2FFFF)"""
    return z3.Full(z3.ReSort(z3.StringSort()))


def ascii_plus_re():
    """strings over ASCII plus the three MaKo2022 symbols (what ahbicht's own builders can produce from parsed keys)"""
    return z3.Star(z3.Union(_range(0, 127), _ch("∧"), _ch("∨"), _ch("⊻")))


def re_equal(a, b, timeout_ms=30000, within=None):
    """(verdict, witness, seconds): 'equal' | 'differ' (witness string) | 'unknown' — over all z3 strings (BOUND)"""
    s = z3.String("s")
    sol = z3.Solver()
    sol.set("timeout", timeout_ms)
    if within is not None:
        sol.add(z3.InRe(s, within))
    sol.add(z3.InRe(s, a) != z3.InRe(s, b))
    t = time.time()
    r = sol.check()
    dt = time.time() - t
    if str(r) == "unsat":
        return "equal", None, dt
    if str(r) == "sat":
        return "differ", sol.model()[s].as_string(), dt
    return "unknown", None, dt


def lark_terminal_re(term):
    """z3 RE of a live Lark TerminalDef"""
    flags = 0
    for f in term.pattern.flags:
        flags |= {"i": re.IGNORECASE, "m": re.MULTILINE, "s": re.DOTALL, "x": re.VERBOSE}.get(f, 0)
    return to_z3(term.pattern.to_regexp(), flags)


def unescape_z3(s: str) -> str:
    """z3 prints non-ASCII as \\u{..}"""
    return re.sub(r"\\u\{([0-9a-fA-F]+)\}", lambda m: chr(int(m.group(1), 16)), s)


# ---------------------------------------------------------------------------------------------------------------------
def c07_bracket_lemma(run) -> None:
    """C07: every match of the live _one_key_surrounded_by_brackets_pattern is '(' '[' digits ']' ')' whose body group
    is the inner '[digits]'; replaced by the body it leaves the key without brackets."""
    from ahbicht.expressions.expression_builder import FormatConstraintExpressionBuilder as B
    from vf.common import ERROR, HELD, INCONCLUSIVE, VIOLATED

    pat = getattr(B, "_one_key_surrounded_by_brackets_pattern", None)
    name = "bracket-stripping pattern == \\(\\[[0-9]+\\]\\) (unbounded length), replaced by its [key] body"
    if pat is None:
        run.ob(name, "z3-re", INCONCLUSIVE, detail="FormatConstraintExpressionBuilder._one_key_surrounded_by_brackets_pattern not found (refactored?); behaviour is covered by the step/glue harnesses")
        return
    try:
        live = to_z3(pat.pattern, pat.flags)
    except Unsupported as u:
        run.ob(name, "z3-re", INCONCLUSIVE, detail=f"pattern outside the translatable subset: {u}")
        return
    doc = to_z3(r"\(\[[0-9]+\]\)")
    verdict, witness, dt = re_equal(live, doc, within=ascii_plus_re())  # collected expressions are built from parsed (ASCII) keys
    run.counters["smt_queries"] += 1
    run.counters["smt_time_s"] += dt
    if verdict == "equal":
        # replacement template: concrete check on a witness of the language
        ok = pat.sub(r"\g<body>", "([901]) U ([7])") == "[901] U [7]" if "body" in pat.groupindex else None
        if ok is None:
            run.ob(name, "z3-re", INCONCLUSIVE, detail="no group named body")
        else:
            run.ob(name, "z3-re", HELD if ok else ERROR, time_s=round(dt, 3), bound="all strings over ASCII+∧∨⊻ (the builder's output alphabet; \\d also matches non-ASCII digits, which no parsed key contains), no length bound")
        return
    if verdict == "unknown":
        run.ob(name, "z3-re", INCONCLUSIVE, detail="z3 returned unknown")
        return
    w = unescape_z3(witness)
    run.ob(name, "z3-re", INCONCLUSIVE, detail=f"pattern differs from the documented shape (e.g. on {w!r}); whether behaviour changes is decided by the step/glue harnesses on the real builder")
