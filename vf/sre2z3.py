"""
Python regular expressions (sre_parse trees) -> z3 regular-expression terms; terminal lemmas.

Alphabet bound of every string-level lemma: ASCII plus ∧ ∨ ⊻ (Python's Unicode case folding lets (?i:k) also match
U+212A etc.; \\d also matches non-ASCII digits — such code points are outside the claims).
Look-around assertions cannot be expressed in z3's regex theory -> Unsupported.
"""

from __future__ import annotations

import re
import time
from typing import Optional

import z3

try:
    import re._parser as sre_parse  # py3.11+
    import re._constants as sre_c
except ImportError:  # pragma: no cover
    import sre_constants as sre_c
    import sre_parse


class Unsupported(Exception):
    pass


WS_CHARS = " \t\n\r\x0b\x0c"


def _ch(c: str):
    return z3.Re(z3.StringVal(c))


def _union(parts):
    parts = list(parts)
    if not parts:
        return z3.Empty(z3.ReSort(z3.StringSort()))
    if len(parts) == 1:
        return parts[0]
    return z3.Union(*parts)


def _range(lo: int, hi: int):
    return z3.Range(chr(lo), chr(hi))


def _case_variants(c: str, ignorecase: bool):
    if ignorecase and c.isascii() and c.isalpha():
        return {c.lower(), c.upper()}
    return {c}


def _category(cat):
    if cat == sre_c.CATEGORY_DIGIT:
        return _range(ord("0"), ord("9"))
    if cat == sre_c.CATEGORY_SPACE:
        return _union(_ch(c) for c in WS_CHARS)
    if cat == sre_c.CATEGORY_WORD:
        return _union([_range(ord("0"), ord("9")), _range(ord("a"), ord("z")), _range(ord("A"), ord("Z")), _ch("_")])
    raise Unsupported(f"category {cat}")


def _in(items, ignorecase: bool):
    negate = False
    parts = []
    for op, av in items:
        if op == sre_c.NEGATE:
            negate = True
        elif op == sre_c.LITERAL:
            parts += [_ch(v) for v in _case_variants(chr(av), ignorecase)]
        elif op == sre_c.RANGE:
            lo, hi = av
            parts.append(_range(lo, hi))
            if ignorecase:
                for c in range(lo, hi + 1):
                    ch = chr(c)
                    if ch.isascii() and ch.isalpha():
                        parts += [_ch(v) for v in _case_variants(ch, True)]
        elif op == sre_c.CATEGORY:
            parts.append(_category(av))
        else:
            raise Unsupported(f"set item {op}")
    u = _union(parts)
    if negate:
        return z3.Intersect(z3.AllChar(z3.ReSort(z3.StringSort())), z3.Complement(u))
    return u


def _seq(parts):
    parts = list(parts)
    if not parts:
        return z3.Re(z3.StringVal(""))
    if len(parts) == 1:
        return parts[0]
    return z3.Concat(*parts)


def _conv(sub, ignorecase: bool):
    out = []
    for op, av in sub:
        if op == sre_c.LITERAL:
            out.append(_union(_ch(v) for v in _case_variants(chr(av), ignorecase)))
        elif op == sre_c.NOT_LITERAL:
            out.append(z3.Intersect(z3.AllChar(z3.ReSort(z3.StringSort())), z3.Complement(_union(_ch(v) for v in _case_variants(chr(av), ignorecase)))))
        elif op == sre_c.ANY:
            out.append(z3.Intersect(z3.AllChar(z3.ReSort(z3.StringSort())), z3.Complement(_ch("\n"))))
        elif op == sre_c.IN:
            out.append(_in(av, ignorecase))
        elif op == sre_c.BRANCH:
            out.append(_union(_conv(b, ignorecase) for b in av[1]))
        elif op == sre_c.SUBPATTERN:
            _group, add_flags, del_flags, p = av
            ic = (ignorecase or bool(add_flags & re.IGNORECASE)) and not bool(del_flags & re.IGNORECASE)
            out.append(_conv(p, ic))
        elif op in (sre_c.MAX_REPEAT, sre_c.MIN_REPEAT):
            lo, hi, p = av
            inner = _conv(p, ignorecase)
            if hi == sre_c.MAXREPEAT:
                if lo == 0:
                    out.append(z3.Star(inner))
                elif lo == 1:
                    out.append(z3.Plus(inner))
                else:
                    out.append(z3.Concat(z3.Loop(inner, lo, lo), z3.Star(inner)))
            else:
                out.append(z3.Loop(inner, lo, hi))
        elif op == sre_c.AT:
            if av in (sre_c.AT_BEGINNING, sre_c.AT_BEGINNING_STRING, sre_c.AT_END, sre_c.AT_END_STRING):
                continue  # full-match semantics
            raise Unsupported(f"anchor {av}")
        elif op in (sre_c.ASSERT, sre_c.ASSERT_NOT):
            raise Unsupported("look-around assertion")
        elif op == sre_c.CATEGORY:
            out.append(_category(av))
        else:
            raise Unsupported(f"regex op {op}")
    return _seq(out)


def to_z3(pattern: str, flags: int = 0):
    tree = sre_parse.parse(pattern, flags)
    ic = bool((flags | tree.state.flags) & re.IGNORECASE)
    return _conv(tree, ic)


ASCII_PLUS = None


def alphabet_re():
    """strings over ASCII plus the three MaKo2022 symbols"""
    global ASCII_PLUS
    if ASCII_PLUS is None:
        ASCII_PLUS = z3.Star(z3.Union(_range(0, 127), _ch("∧"), _ch("∨"), _ch("⊻")))
    return ASCII_PLUS


def re_equal(a, b, timeout_ms=30000):
    """(verdict, witness, seconds): 'equal' | 'differ' (witness string) | 'unknown' — over the bounded alphabet"""
    s = z3.String("s")
    sol = z3.Solver()
    sol.set("timeout", timeout_ms)
    sol.add(z3.InRe(s, alphabet_re()))
    sol.add(z3.InRe(s, a) != z3.InRe(s, b))
    t = time.time()
    r = sol.check()
    dt = time.time() - t
    if str(r) == "unsat":
        return "equal", None, dt
    if str(r) == "sat":
        return "differ", sol.model()[s].as_string(), dt
    return "unknown", None, dt


def lark_terminal_re(term):
    """z3 RE of a live Lark TerminalDef"""
    flags = 0
    for f in term.pattern.flags:
        flags |= {"i": re.IGNORECASE, "m": re.MULTILINE, "s": re.DOTALL, "x": re.VERBOSE}.get(f, 0)
    return to_z3(term.pattern.to_regexp(), flags)


def unescape_z3(s: str) -> str:
    """z3 prints non-ASCII as \\u{..}"""
    return re.sub(r"\\u\{([0-9a-fA-F]+)\}", lambda m: chr(int(m.group(1), 16)), s)


# ---------------------------------------------------------------------------------------------------------------------
def c07_bracket_lemma(run) -> None:
    """C07: every match of the live _one_key_surrounded_by_brackets_pattern is '(' '[' digits ']' ')' whose body group
    is the inner '[digits]'; replaced by the body it leaves the key without brackets."""
    from ahbicht.expressions.expression_builder import FormatConstraintExpressionBuilder as B
    from vf.common import ERROR, HELD, INCONCLUSIVE, VIOLATED

    pat = getattr(B, "_one_key_surrounded_by_brackets_pattern", None)
    name = "bracket-stripping pattern == \\(\\[[0-9]+\\]\\) (unbounded length), replaced by its [key] body"
    if pat is None:
        run.ob(name, "z3-re", INCONCLUSIVE, detail="FormatConstraintExpressionBuilder._one_key_surrounded_by_brackets_pattern not found (refactored?); behaviour is covered by the step/glue harnesses")
        return
    try:
        live = to_z3(pat.pattern, pat.flags)
    except Unsupported as u:
        run.ob(name, "z3-re", INCONCLUSIVE, detail=f"pattern outside the translatable subset: {u}")
        return
    doc = to_z3(r"\(\[[0-9]+\]\)")
    verdict, witness, dt = re_equal(live, doc)
    run.counters["smt_queries"] += 1
    run.counters["smt_time_s"] += dt
    if verdict == "equal":
        # replacement template: concrete check on a witness of the language
        ok = pat.sub(r"\g<body>", "([901]) U ([7])") == "[901] U [7]" if "body" in pat.groupindex else None
        if ok is None:
            run.ob(name, "z3-re", INCONCLUSIVE, detail="no group named body")
        else:
            run.ob(name, "z3-re", HELD if ok else ERROR, time_s=round(dt, 3), bound="all strings over ASCII+∧∨⊻, no length bound")
        return
    if verdict == "unknown":
        run.ob(name, "z3-re", INCONCLUSIVE, detail="z3 returned unknown")
        return
    w = unescape_z3(witness)
    run.ob(name, "z3-re", INCONCLUSIVE, detail=f"pattern differs from the documented shape (e.g. on {w!r}); whether behaviour changes is decided by the step/glue harnesses on the real builder")
