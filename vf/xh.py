"""
XH — CrossHair driver.

A job = one CrossHair condition: (harness function name, module globals to set = partition/selector prefix,
per-condition timeout).  Jobs run in a pool of spawned worker processes (each imports ahbicht and the harness
module afresh from /repo's current tree).  The worker uses CrossHair's own analysis entry points
(`analyze_function` + `Checkable.analyze`, i.e. exactly what `crosshair check` runs) so that the verdict per
condition is CrossHair's: CONFIRMED ("Confirmed over all paths"), CANNOT_CONFIRM, PRE_UNSAT, POST_FAIL, EXEC_ERR.

Every job is followed by its reachability twin when it came back CONFIRMED (same condition with xs.TWIN set:
the harness raises at its assertion point; the twin must be refuted, otherwise the harness is vacuous).
Counterexamples are replayed natively (no tracing) in a fresh process before they count.
"""

from __future__ import annotations

import json
import multiprocessing as mp
import os
import subprocess
import sys
import time
import traceback
from typing import Any, Callable, Dict, List, Optional

from vf.common import ERROR, HELD, INCONCLUSIVE, NCPU, VIOLATED, Run

_MOD = None
_INIT_ERROR = None


def _worker_init(module_name: str):
    global _MOD, _INIT_ERROR
    import importlib
    import logging

    try:
        logging.disable(logging.CRITICAL)
        import ahbicht.content_evaluation  # noqa: F401  (import order: avoids the circular import of the resolver)

        _MOD = importlib.import_module(module_name)
        from vf import xs

        xs.install_real_lru_patch()
        xs.snapshot_module_state()  # module-level state of the code under test right after import (see xs.reset_module_state)
    except BaseException as e:  # pylint:disable=broad-except
        _INIT_ERROR = f"{type(e).__name__}: {e}\n{traceback.format_exc()[-2500:]}"


def _analyze(fn, timeout: float, per_path: float):
    import collections

    from crosshair.core_and_libs import analyze_function
    from crosshair.options import AnalysisOptionSet

    stats: collections.Counter = collections.Counter()
    opts = AnalysisOptionSet(per_condition_timeout=timeout, per_path_timeout=per_path, stats=stats, report_all=True)
    checkables = analyze_function(fn, opts)
    msgs = []
    for c in checkables:
        msgs.extend(c.analyze())
    return msgs, stats


def _worker_job(job: Dict[str, Any]) -> Dict[str, Any]:
    from vf import xs

    t0 = time.time()
    c0 = time.process_time()
    out: Dict[str, Any] = {"fn": job["fn"], "globals": job.get("globals", {}), "label": job.get("label")}
    if _INIT_ERROR is not None:
        out.update({"state": "WORKER_CRASH", "message": "harness module failed to import: " + _INIT_ERROR, "paths": 0, "reached": 0, "fails": [], "time_s": 0, "cpu_s": 0})
        return out
    try:
        import importlib

        mod = importlib.import_module(job["module"]) if job.get("module") else _MOD
        for k, v in job.get("globals", {}).items():
            setattr(mod, k, v)
        fn = getattr(mod, job["fn"])
        xs.TWIN = False
        xs.REAL_LRU = False
        xs.REACHED = 0
        xs.FAILS.clear()
        xs.NOTES.clear()
        msgs, stats = _analyze(fn, job.get("timeout", 60), job.get("per_path", 30))
        out["state"] = msgs[0].state.name if msgs else "NO_CONDITIONS"
        out["message"] = msgs[0].message if msgs else ""
        out["traceback"] = (msgs[0].traceback or "")[-3000:] if msgs else ""
        out["paths"] = int(stats.get("num_paths", 0))
        out["reached"] = xs.REACHED
        out["fails"] = list(xs.FAILS)
        out["notes"] = list(xs.NOTES)
        if out["state"] == "CONFIRMED" and job.get("twin", True):
            xs.TWIN = True
            xs.REACHED = 0
            tmsgs, tstats = _analyze(fn, min(job.get("timeout", 60), 60), job.get("per_path", 30))
            xs.TWIN = False
            tstate = tmsgs[0].state.name if tmsgs else "NO_CONDITIONS"
            out["twin_state"] = tstate
            out["twin_ok"] = tstate == "EXEC_ERR" and "Reached" in (tmsgs[0].message or "")
            out["twin_paths"] = int(tstats.get("num_paths", 0))
    except BaseException as e:  # pylint:disable=broad-except
        out["state"] = "WORKER_CRASH"
        out["message"] = f"{type(e).__name__}: {e}"
        out["traceback"] = traceback.format_exc()[-3000:]
    out["time_s"] = round(time.time() - t0, 2)
    out["cpu_s"] = round(time.process_time() - c0, 2)
    return out


def run_jobs(run: Run, module: str, jobs: List[Dict[str, Any]], nproc: int = NCPU, wall_limit: Optional[float] = None) -> List[Dict[str, Any]]:
    """run all jobs, returns one result dict per job (same order)"""
    run.engines["XH"] = "CrossHair 0.0.110 (analyze_function/Checkable.analyze = `crosshair check`), z3 inside"
    if not jobs:
        return []
    for j in jobs:
        j.setdefault("module", module)
    ctx = mp.get_context("spawn")
    nproc = max(1, min(nproc, len(jobs)))
    results: List[Optional[Dict[str, Any]]] = [None] * len(jobs)
    limit = wall_limit or (sum(2.2 * j.get("timeout", 60) for j in jobs) / nproc + 120)
    t0 = time.time()
    pool = ctx.Pool(nproc, initializer=_worker_init, initargs=(module,), maxtasksperchild=None)
    try:
        asyncs = [pool.apply_async(_worker_job, (j,)) for j in jobs]
        for i, a in enumerate(asyncs):
            remaining = max(1.0, limit - (time.time() - t0))
            try:
                results[i] = a.get(timeout=remaining)
            except mp.TimeoutError:
                results[i] = {"fn": jobs[i]["fn"], "globals": jobs[i].get("globals", {}), "state": "WALL_TIMEOUT", "message": f"no result within {limit:.0f}s", "paths": 0, "reached": 0, "fails": [], "time_s": limit, "cpu_s": 0}
            except Exception as e:  # pylint:disable=broad-except
                results[i] = {"fn": jobs[i]["fn"], "globals": jobs[i].get("globals", {}), "state": "WORKER_CRASH", "message": f"{type(e).__name__}: {e}", "paths": 0, "reached": 0, "fails": [], "time_s": 0, "cpu_s": 0}
    finally:
        pool.terminate()
        pool.join()
    for r, j in zip(results, jobs):
        r["module"] = j.get("module") or module
        run.counters["xh_conditions"] += 1
        run.counters["xh_paths"] += r.get("paths", 0) + r.get("twin_paths", 0)
        run.counters["xh_paths_reaching_assertion"] += r.get("reached", 0)
        run.counters["xh_cpu_s"] += r.get("cpu_s", 0)
    return results  # type: ignore


def job_name(r: Dict[str, Any]) -> str:
    g = r.get("globals") or {}
    suffix = ",".join(f"{k}={v}" for k, v in g.items())
    return f"{r.get('module', '').split('.')[-1]}.{r['fn']}" + (f"[{suffix}]" if suffix else "")


def replay_native(module: str, fn: str, globals_: Dict[str, Any], inputs: Dict[str, Any], timeout: float = 120) -> Dict[str, Any]:
    """re-run the harness body natively (no CrossHair) in a fresh interpreter on recorded inputs"""
    payload = json.dumps({"module": module, "fn": fn, "globals": globals_, "inputs": inputs})
    env = dict(os.environ)
    try:
        p = subprocess.run([sys.executable, "-m", "vf.replay", "--payload", payload], capture_output=True, text=True, timeout=timeout, env=env, check=False)
    except subprocess.TimeoutExpired:
        return {"outcome": "timeout"}
    last = [l for l in p.stdout.splitlines() if l.startswith("REPLAY-RESULT ")]
    if not last:
        return {"outcome": "crash", "detail": (p.stdout + p.stderr)[-2000:]}
    return json.loads(last[-1][len("REPLAY-RESULT "):])


def default_verdict(
    run: Run,
    r: Dict[str, Any],
    violation_features: Optional[Callable[[Dict[str, Any], Dict[str, Any]], Dict[str, Any]]] = None,
    bound: Optional[str] = None,
) -> str:
    """Turn one job result into an obligation (+ violation after native replay). Returns the verdict."""
    name = job_name(r)
    state = r.get("state")
    common = {"paths": r.get("paths"), "confirmed_paths": r.get("reached"), "time_s": r.get("time_s"), "bound": bound}
    if state == "CONFIRMED":
        if r.get("twin_ok") is False:
            run.ob(name, "XH", ERROR, detail=f"vacuous: reachability twin came back {r.get('twin_state')}", **common)
            return ERROR
        run.ob(name, "XH", HELD, **common)
        return HELD
    if state in ("CANNOT_CONFIRM", "PRE_UNSAT", "WALL_TIMEOUT"):
        run.ob(name, "XH", INCONCLUSIVE, detail=f"{state}: {r.get('message')} after {r.get('paths')} paths ({r.get('reached')} reached the assertion)", **common)
        return INCONCLUSIVE
    if state in ("POST_FAIL", "EXEC_ERR", "POST_ERR"):
        fails = r.get("fails") or []
        if not fails and "Inconclusive" in (r.get("message") or ""):
            run.ob(name, "XH", INCONCLUSIVE, detail=f"{r.get('message')}", **common)
            return INCONCLUSIVE
        if not fails:
            # exception escaped the harness: either harness error or unexpected exception in the code under test;
            # the harness is responsible for catching exceptions of the code under test, so this is a harness error
            run.ob(name, "XH", ERROR, detail=f"{state}: {r.get('message')}\n{r.get('traceback', '')[-1500:]}", **common)
            return ERROR
        reproduced_any = False
        non_repro = []
        # state that earlier paths left behind in the worker process (module-level memo tables of the code under test) can make a
        # path fail that does not fail on its own: try up to 10 distinct recorded failures, newest first, until one reproduces
        cands, seen_inputs = [], set()
        for f in reversed(fails):
            key = json.dumps(f["inputs"], sort_keys=True, default=str)
            if key not in seen_inputs:
                seen_inputs.add(key)
                cands.append(f)
        for f in cands[:10]:
            rep = replay_native(r["module"], r["fn"], r.get("globals") or {}, f["inputs"])
            run.counters["replayed_witnesses"] += 1
            if rep.get("outcome") == "fail":
                reproduced_any = True
                feats = violation_features(r, rep) if violation_features else {}
                feats = dict(feats or {})
                feats.setdefault("harness", f"{r['module'].split('.')[-1]}.{r['fn']}")
                what = rep.get("what") or f["what"]
                run.violation(name, what, feats, {"kind": "xh-harness", "module": r["module"], "fn": r["fn"], "globals": r.get("globals") or {}, "inputs": f["inputs"]})
                break
            non_repro.append(rep)
        if reproduced_any:
            run.ob(name, "XH", VIOLATED, detail=fails[-1]["what"], **common)
            return VIOLATED
        run.ob(name, "XH", ERROR, detail=f"counterexample did not reproduce natively: {fails[-1]} -> {non_repro}", **common)
        return ERROR
    run.ob(name, "XH", ERROR, detail=f"{state}: {r.get('message')}\n{r.get('traceback', '')[-1500:]}", **common)
    return ERROR
