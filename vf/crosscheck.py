"""
Second-solver cross-check (DESIGN §4.2): a z3 query is exported as SMT-LIB2 (Solver.to_smt2) and answered again by the
cvc5 binary.  A definite disagreement (sat vs unsat) is a harness error (exit 2), never a verdict; cvc5 `unknown`/timeouts
are only counted.  Enabled in the thorough tier (VERIF_CVC5=1) for the LIA / Boolean lemmas of PZ, TM and GS.
"""
from __future__ import annotations

import os
import subprocess
import tempfile
import time
from typing import List, Sequence

import z3

ENABLED = os.environ.get("VERIF_CVC5", "") == "1"
STATS = {"queries": 0, "agree": 0, "unknown": 0, "time_s": 0.0}
DISAGREEMENTS: List[str] = []
CVC5 = "/usr/bin/cvc5"


def cvc5_answer(assertions: Sequence[z3.BoolRef], timeout_s: int = 120) -> str:
    s = z3.Solver()
    for a in assertions:
        s.add(a)
    text = "(set-logic ALL)\n" + s.to_smt2()
    with tempfile.NamedTemporaryFile("w", suffix=".smt2", delete=False, dir=os.environ.get("VERIF_ROOT", "/verif") + "/.work" if os.path.isdir(os.environ.get("VERIF_ROOT", "/verif") + "/.work") else None) as f:
        f.write(text)
        path = f.name
    try:
        p = subprocess.run([CVC5, f"--tlimit={timeout_s * 1000}", path], capture_output=True, text=True, timeout=timeout_s + 30, check=False)
        out = (p.stdout or "").strip().splitlines()
        if "(error" in (p.stdout or "") + (p.stderr or ""):
            return "error"
        return out[0].strip() if out else "unknown"
    except subprocess.TimeoutExpired:
        return "unknown"
    finally:
        try:
            os.unlink(path)
        except OSError:
            pass


def compare(name: str, assertions: Sequence[z3.BoolRef], z3_result: str, timeout_s: int = 120) -> None:
    if not ENABLED or z3_result not in ("sat", "unsat"):
        return
    t = time.time()
    r = cvc5_answer(assertions, min(timeout_s, 60) if timeout_s == 120 else timeout_s)
    STATS["queries"] += 1
    STATS["time_s"] += time.time() - t
    if r == z3_result:
        STATS["agree"] += 1
    elif r in ("sat", "unsat"):
        DISAGREEMENTS.append(f"{name}: z3 {z3_result}, cvc5 {r}")
    else:
        STATS["unknown"] += 1
