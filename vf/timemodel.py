"""
TM — z3 model of civil time for C20.

A parsed aware datetime is the pair (t, off): t = UTC instant in whole seconds since 1970-01-01T00:00:00Z,
off = UTC offset of the notation in seconds.  Symbolic datetime / time objects implement the PZ intrinsic protocol
(pz_call / pz_getattr / pz_eq) so that the real source of german_strom_and_gas_tag.py is interpreted over them.

The zone table is read from the LIVE tzinfo object the code passes to astimezone (pytz `_utc_transition_times`,
`_transition_info`), so a change of zone or of the table is reflected in the encoding.  The EU rule is computed
independently by integer arithmetic (Sakamoto's day-of-week formula + days-from-civil), without datetime/pytz.
"""

from __future__ import annotations

import datetime as _dt
from typing import List, Tuple

import z3

from vf import pyz3

EPOCH = _dt.datetime(1970, 1, 1)
MIN_LOCAL = int((_dt.datetime(1, 1, 1) - EPOCH).total_seconds())  # 0001-01-01T00:00:00
MAX_LOCAL = int((_dt.datetime(9999, 12, 31, 23, 59, 59) - EPOCH).total_seconds())


# ------------------------------------------------------------------ independent calendar arithmetic
def days_from_civil(y: int, m: int, d: int) -> int:
    """days since 1970-01-01 (Howard Hinnant's algorithm), pure integer arithmetic"""
    y -= m <= 2
    era = (y if y >= 0 else y - 399) // 400
    yoe = y - era * 400
    doy = (153 * (m + (-3 if m > 2 else 9)) + 2) // 5 + d - 1
    doe = yoe * 365 + yoe // 4 - yoe // 100 + doy
    return era * 146097 + doe - 719468


def weekday_sakamoto(y: int, m: int, d: int) -> int:
    """0 = Sunday … 6 = Saturday"""
    t = [0, 3, 2, 5, 0, 3, 5, 1, 4, 6, 2, 4]
    y -= m < 3
    return (y + y // 4 - y // 100 + y // 400 + t[m - 1] + d) % 7


def last_sunday(y: int, m: int) -> int:
    return 31 - weekday_sakamoto(y, m, 31)  # March and October both have 31 days


def eu_switches(year_from: int, year_to: int) -> List[Tuple[int, int]]:
    """[(instant, offset valid from that instant)] per the EU rule: last Sunday of March/October, 01:00 UTC"""
    out = []
    for y in range(year_from, year_to + 1):
        out.append((days_from_civil(y, 3, last_sunday(y, 3)) * 86400 + 3600, 7200))
        out.append((days_from_civil(y, 10, last_sunday(y, 10)) * 86400 + 3600, 3600))
    return out


def eu_offset_term(t, year_from=1996, year_to=2037):
    """CET/CEST offset by the EU rule for t within [year_from-01-01, (year_to+1)-01-01)"""
    term = z3.IntVal(3600)
    for inst, off in eu_switches(year_from, year_to):
        term = z3.If(t >= inst, z3.IntVal(off), term)
    return term


# ------------------------------------------------------------------ live zone table
def zone_table(tz) -> List[Tuple[int, int]]:
    """[(utc transition instant, utcoffset seconds)] of a pytz DstTzInfo, as pytz.fromutc uses it"""
    times = getattr(tz, "_utc_transition_times", None)
    infos = getattr(tz, "_transition_info", None)
    if times is None or infos is None:
        raise pyz3.Unsupported(f"tzinfo {tz!r} has no pytz transition table")
    return [(int((tt - EPOCH).total_seconds()), int(inf[0].total_seconds())) for tt, inf in zip(times, infos)]


def zone_offset_term(tz, t):
    if isinstance(tz, _dt.timezone):
        return z3.IntVal(int(tz.utcoffset(None).total_seconds()))
    if getattr(tz, "zone", None) == "UTC" or tz is _dt.timezone.utc:
        return z3.IntVal(0)
    if hasattr(tz, "_utc_transition_times"):
        table = zone_table(tz)
        term = z3.IntVal(table[0][1])  # idx = max(0, bisect_right - 1): before the first transition use entry 0
        for inst, off in table[1:]:
            term = z3.If(t >= inst, z3.IntVal(off), term)
        return term
    if hasattr(tz, "utcoffset"):
        try:
            return z3.IntVal(int(tz.utcoffset(None).total_seconds()))  # static tz (pytz StaticTzInfo)
        except Exception as e:  # pylint:disable=broad-except
            raise pyz3.Unsupported(f"tzinfo {tz!r}: {e}") from e
    raise pyz3.Unsupported(f"tzinfo {tz!r}")


# ------------------------------------------------------------------ symbolic objects
class SymTime:
    """naive time of day, whole seconds"""

    def __init__(self, sod):
        self.sod = sod  # 0..86399

    def pz_getattr(self, name):
        if name == "hour":
            return self.sod / 3600
        if name == "minute":
            return (self.sod % 3600) / 60
        if name == "second":
            return self.sod % 60
        if name == "microsecond":
            return 0
        if name == "tzinfo":
            return None
        raise pyz3.Unsupported(f"time.{name}")

    def pz_call(self, interp, name, args, kwargs):
        if name == "isoformat":
            return pyz3.Opaque("time.isoformat")
        raise pyz3.Unsupported(f"time.{name}()")

    def pz_eq(self, other):
        if isinstance(other, SymTime):
            return self.sod == other.sod
        if isinstance(other, _dt.time):
            if other.tzinfo is not None or other.microsecond:
                return False
            return self.sod == other.hour * 3600 + other.minute * 60 + other.second
        return False


class SymDelta:
    """timedelta in whole seconds"""

    def __init__(self, secs):
        self.secs = secs

    def pz_call(self, interp, name, args, kwargs):
        if name == "total_seconds":
            return self.secs
        raise pyz3.Unsupported(f"timedelta.{name}()")

    def pz_getattr(self, name):
        if name == "days":
            return self.secs / 86400
        if name == "seconds":
            return self.secs % 86400
        if name == "microseconds":
            return 0
        raise pyz3.Unsupported(f"timedelta.{name}")

    def pz_eq(self, other):
        if isinstance(other, SymDelta):
            return self.secs == other.secs
        if isinstance(other, _dt.timedelta):
            if other.microseconds:
                return False
            return self.secs == other.days * 86400 + other.seconds
        return False


class SymDT:
    """aware datetime (t, off); representable iff MIN_LOCAL <= t + off <= MAX_LOCAL"""

    def __init__(self, t, off):
        self.t, self.off = t, off

    def local(self):
        return self.t + self.off

    def pz_getattr(self, name):
        if name == "tzinfo":
            return pyz3.Opaque("tzinfo")
        tm = SymTime(self.local() % 86400)
        if name in ("hour", "minute", "second", "microsecond"):
            return tm.pz_getattr(name)
        raise pyz3.Unsupported(f"datetime.{name}")

    def pz_call(self, interp, name, args, kwargs):
        if name == "time":
            return SymTime(self.local() % 86400)
        if name == "timetz":
            raise pyz3.Unsupported("timetz")
        if name == "astimezone":
            tz = args[0] if args else kwargs.get("tz")
            if tz is None:
                raise pyz3.Unsupported("astimezone() to the system zone")
            # CPython: utc = self - offset  (OverflowError if outside year 1..9999), then tz.fromutc(utc)
            if interp.decide(z3.Or(self.t < MIN_LOCAL, self.t > MAX_LOCAL)):
                raise pyz3._Raise("OverflowError")
            noff = zone_offset_term(tz, self.t)
            if interp.decide(z3.Or(self.t + noff < MIN_LOCAL, self.t + noff > MAX_LOCAL)):
                raise pyz3._Raise("OverflowError")
            return SymDT(self.t, noff)
        if name == "isoformat":
            return pyz3.Opaque("datetime.isoformat")
        if name == "utcoffset":
            return SymDelta(self.off)
        raise pyz3.Unsupported(f"datetime.{name}()")

    def pz_eq(self, other):
        if isinstance(other, SymDT):
            return self.t == other.t
        return False


def render_iso(t: int, off: int) -> str:
    """ISO-8601 string for the instant t written with UTC offset off (seconds), without going through tz arithmetic
    that could itself overflow"""
    local = t + off
    base = _dt.datetime(1, 1, 1) + _dt.timedelta(seconds=local - MIN_LOCAL)
    sign = "+" if off >= 0 else "-"
    a = abs(off)
    hh, mm, ss = a // 3600, (a % 3600) // 60, a % 60
    s = f"{base.year:04d}-{base.month:02d}-{base.day:02d}T{base.hour:02d}:{base.minute:02d}:{base.second:02d}{sign}{hh:02d}:{mm:02d}"
    if ss:
        s += f":{ss:02d}"
    return s
