"""
Harness environment: Lark-parse proxies (concretisation boundary, DESIGN §3.2), evaluators whose awaitables yield a
(symbolic) number of times, inject configuration.  All set-up runs under xs.nt() (untraced) — DESIGN §3.3.
"""

from __future__ import annotations

from typing import Any, Callable, Dict, List, Optional

import inject
from efoli import EdifactFormat, EdifactFormatVersion

import ahbicht.content_evaluation  # noqa: F401  (import order)
from ahbicht.content_evaluation.evaluationdatatypes import EvaluatableData, EvaluatableDataProvider
from ahbicht.content_evaluation.fc_evaluators import FcEvaluator
from ahbicht.content_evaluation.rc_evaluators import RcEvaluator
from ahbicht.content_evaluation.token_logic_provider import SingletonTokenLogicProvider, TokenLogicProvider
from ahbicht.expressions.hints_provider import HintsProvider
from ahbicht.expressions.package_expansion import PackageResolver
from ahbicht.models.condition_nodes import ConditionFulfilledValue as CFV
from ahbicht.models.condition_nodes import EvaluatedFormatConstraint
from ahbicht.models.mapping_results import PackageKeyConditionExpressionMapping

from vf import xs
from vf.detloop import yields

FMT, FV = EdifactFormat.UTILMD, EdifactFormatVersion.FV2210
STATES = (CFV.FULFILLED, CFV.UNFULFILLED, CFV.UNKNOWN)


# ----------------------------------------------------------------------------- parser proxies
class ParserProxy:
    """Lark.parse on the realised string, untraced (CrossHair mis-executes Lark's Earley scanner when traced)."""

    def __init__(self, real):
        self._real = real
        self.calls = 0

    def parse(self, text, *a, **k):
        text = xs.R(text)
        exc = None
        tree = None
        with xs.nt():
            self.calls += 1
            try:
                tree = self._real.parse(text, *a, **k)
            except Exception as e:  # pylint:disable=broad-except
                exc = e
        if exc is not None:
            raise exc
        return tree

    def __getattr__(self, name):
        return getattr(self._real, name)


def _parser_attrs(mod):
    """names of the module attributes that hold the Lark object (usually just `_parser`; survives a rename)"""
    import lark

    names = [n for n, v in vars(mod).items() if isinstance(v, (lark.Lark, ParserProxy))]
    if "_parser" in names:
        names.remove("_parser")
        names.insert(0, "_parser")
    return names


def real_parser(which: str):
    import ahbicht.expressions.ahb_expression_parser as aep
    import ahbicht.expressions.condition_expression_parser as cep

    mod = cep if which == "condition" else aep
    names = _parser_attrs(mod)
    if not names:
        raise xs.HarnessError(f"{mod.__name__}: no module-level Lark object found (refactored?)")
    p = getattr(mod, names[0])
    return p._real if isinstance(p, ParserProxy) else p


def install_parser_proxies() -> None:
    import ahbicht.expressions.ahb_expression_parser as aep
    import ahbicht.expressions.condition_expression_parser as cep

    for mod in (cep, aep):
        names = _parser_attrs(mod)
        if not names:
            raise xs.HarnessError(f"{mod.__name__}: no module-level Lark object found (refactored?)")
        for n in names:
            p = getattr(mod, n)
            if not isinstance(p, ParserProxy):
                setattr(mod, n, ParserProxy(p))


def raw_parse_condition(text: str):
    """the uncached real Lark parse (untraced); returns tree or raises"""
    with xs.nt():
        return real_parser("condition").parse(text)


# ----------------------------------------------------------------------------- evaluators with yields
def _mk_class(base, prefix: str, methods: Dict[str, Callable]):
    return type(f"{prefix}Gen", (base,), dict(methods))


class Log:
    def __init__(self):
        self.rc: List[tuple] = []
        self.fc: List[tuple] = []
        self.hint: List[tuple] = []
        self.pkg: List[tuple] = []


def make_rc_evaluator(states: Dict[str, Any], ycount: Dict[str, int], log: Log, sync_keys=()):
    """RcEvaluator subclass with evaluate_<key> methods (async; yield ycount[key] times, then return states[key])"""
    methods = {}
    for key in states:

        def mk(key=key):
            if key in sync_keys:

                def ev(self, evaluatable_data, context):
                    log.rc.append((key, states[key]))
                    return states[key]

            else:

                async def ev(self, evaluatable_data, context):
                    await yields(ycount.get(key, 0))
                    log.rc.append((key, states[key]))
                    return states[key]

            return ev

        methods[f"evaluate_{key}"] = mk()
    methods["_get_default_context"] = lambda self: None
    cls = _mk_class(RcEvaluator, "Rc", methods)
    ev = cls()
    ev.edifact_format, ev.edifact_format_version = FMT, FV
    return ev


def make_fc_evaluator(values: Dict[str, Any], ycount: Dict[str, int], log: Log, messages: Optional[Dict[str, Optional[str]]] = None):
    """FcEvaluator subclass with async evaluate_<key>(entered_input) methods; records the text each key was handed"""
    methods = {}
    messages = messages or {}
    for key in values:

        def mk(key=key):
            async def ev(self, entered_input):
                await yields(ycount.get(key, 0))
                log.fc.append((key, entered_input))
                v = values[key]
                if callable(v):
                    v = v(entered_input)
                if isinstance(v, EvaluatedFormatConstraint):
                    return v
                return EvaluatedFormatConstraint(format_constraint_fulfilled=v, error_message=messages.get(key, None if v else f"[{key}] not fulfilled"))

            return ev

        methods[f"evaluate_{key}"] = mk()
    cls = _mk_class(FcEvaluator, "Fc", methods)
    ev = cls()
    ev.edifact_format, ev.edifact_format_version = FMT, FV
    return ev


class YHints(HintsProvider):
    def __init__(self, hints: Dict[str, Optional[str]], ycount: Dict[str, int], log: Log):
        super().__init__()
        self._h, self._y, self._log = hints, ycount, log
        self.edifact_format, self.edifact_format_version = FMT, FV

    async def get_hint_text(self, condition_key: str) -> Optional[str]:
        await yields(self._y.get(condition_key, 0))
        self._log.hint.append((condition_key, self._h.get(condition_key)))
        return self._h.get(condition_key)


class YResolver(PackageResolver):
    def __init__(self, table: Dict[str, Optional[str]], ycounts: List[int], log: Log):
        super().__init__()
        self._t, self._y, self._log = table, list(ycounts), log
        self._n = 0
        self.edifact_format, self.edifact_format_version = FMT, FV

    async def get_condition_expression(self, package_key: str) -> PackageKeyConditionExpressionMapping:
        i = self._n
        self._n += 1
        await yields(self._y[i] if i < len(self._y) else 0)
        self._log.pkg.append((package_key, self._t.get(package_key)))
        return PackageKeyConditionExpressionMapping(package_key=package_key, package_expression=self._t.get(package_key), edifact_format=FMT)


def default_data():
    return EvaluatableData(body=None, edifact_format=FMT, edifact_format_version=FV)


def configure(providers: List[Any], data_provider: Optional[Callable[[], EvaluatableData]] = None) -> None:
    dp = data_provider or default_data

    def cfg(binder):
        binder.bind(TokenLogicProvider, SingletonTokenLogicProvider(list(providers)))
        binder.bind_to_provider(EvaluatableDataProvider, dp)

    inject.clear_and_configure(cfg)


def setup(
    rc: Optional[Dict[str, Any]] = None,
    fc: Optional[Dict[str, Any]] = None,
    hints: Optional[Dict[str, Optional[str]]] = None,
    packages: Optional[Dict[str, Optional[str]]] = None,
    yc: Optional[Dict[str, int]] = None,
    pkg_yields: Optional[List[int]] = None,
    fc_messages: Optional[Dict[str, Optional[str]]] = None,
    data_provider=None,
    sync_keys=(),
) -> Log:
    """build evaluators + inject configuration, untraced.  Values inside rc/fc dicts may stay symbolic."""
    log = Log()
    yc = yc or {}
    with xs.nt():
        install_parser_proxies()
        provs = [
            make_rc_evaluator(rc or {}, yc, log, sync_keys),
            make_fc_evaluator(fc or {}, yc, log, fc_messages),
            YHints(hints or {}, yc, log),
            YResolver(packages or {}, pkg_yields or [], log),
        ]
        configure(provs, data_provider)
    return log
