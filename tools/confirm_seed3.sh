#!/bin/bash
# usage: tools/confirm_seed3.sh <Cxx> <a|b|c>   — round-3 seeds (patches against the repaired tree), worktree /tmp/wt3c/<Cxx>
set -uo pipefail
ID=$1; X=$2; SRC=/tmp/seeds3
WT=/tmp/wt3c/$ID; S=$SRC/$ID/$X
[ -f "$S/patch.diff" ] || { echo "CONFIRM3 $ID/$X: no patch"; exit 1; }
[ -d "$WT" ] || git -C /repo worktree add -q --detach "$WT" HEAD
cd "$WT" && git checkout -q -- . && git clean -fdq
git apply --check "$S/patch.diff" || { echo "CONFIRM3 $ID/$X: patch does not apply"; exit 1; }
PYTHONPATH=$WT/src timeout 600 /venv/bin/python "$S/demo.py" >/tmp/seeds3/$ID-$X.demo0 2>&1; D0=$?
git apply "$S/patch.diff"
T=$(PYTHONPATH=$WT/src /venv/bin/python -m pytest -q -p no:cacheprovider 2>&1 | tail -1)
PYTHONPATH=$WT/src timeout 600 /venv/bin/python "$S/demo.py" >/tmp/seeds3/$ID-$X.demo1 2>&1; D1=$?
git checkout -q -- . && git clean -fdq
echo "CONFIRM3 $ID/$X: tests_with_patch='$T' demo_without=$D0 demo_with=$D1"
if [[ "$T" == *"532 passed"* && $D0 -eq 0 && $D1 -ne 0 ]]; then
  D=/verif/seeded/$ID-r3$X; mkdir -p $D && cp "$S/patch.diff" "$S/demo.py" $D/
  python3 - "$S/meta.json" "$D/meta.json" "$ID" "$X" "$T" <<'PY'
import json,sys
src,dst,pid,x,t=sys.argv[1:6]
try: a=json.load(open(src))
except Exception: a={}
json.dump({"property":pid,"seed":f"{pid}-r3{x}","round":3,"origin":"independent sub-agent given only the property text and its own scratch worktree of /repo (no access to /verif)","base_commit":"HEAD of /repo after the eight fix: commits","files_changed":a.get("files_changed"),"what_changed":a.get("what_changed"),"needs_to_manifest":a.get("needs_to_manifest"),"why_tests_still_pass":a.get("why_tests_still_pass"),"confirmed_by_me":{"how":"tools/confirm_seed3.sh in scratch worktree /tmp/wt3c/%s: git apply; full unedited suite; demo.py with and without the patch"%pid,"result":f"tests_with_patch='{t}' demo_without=0 demo_with=nonzero"},"detected_by":"see DESIGN.md §13"},open(dst,"w"),indent=1,ensure_ascii=False)
PY
  echo "CONFIRMED3 $ID/$X"
else
  echo "REJECTED3 $ID/$X"; exit 1
fi
