#!/bin/bash
# usage: tools/run_all.sh <quick|thorough> [ids...]
TIER=${1:-quick}; shift
IDS=${@:-C01 C02 C03 C04 C05 C06 C07 C08 C09 C10 C11 C12 C13 C14 C15 C16 C17 C18 C19 C20}
cd "$(dirname "$0")/.."
mkdir -p /tmp/seeds
for c in $IDS; do
  s=$(date +%s); ./bin/check $c $TIER > /tmp/seeds/all-$c-$TIER.log 2>&1; rc=$?
  echo "$c exit=$rc $(( $(date +%s) - s ))s $(grep '^SUMMARY' /tmp/seeds/all-$c-$TIER.log | cut -d' ' -f4-)"
  grep -E "^(VIOLATION|INCONCLUSIVE|HARNESS-ERROR|KNOWN)" /tmp/seeds/all-$c-$TIER.log | cut -c1-200 | head -3
done
