#!/usr/bin/env python3
"""Collect 'TRY seed=… check=… exit=…' lines (tools/try_seed.sh, tools/dev_try.sh, batch scripts) into seeded/RESULTS.json and
print the markdown table of DESIGN.md §13 for the given round (r2 / r3)."""
import json
import re
import sys
from pathlib import Path

ROOT = Path(__file__).resolve().parent.parent
RES = ROOT / "seeded" / "RESULTS.json"


def collect(files):
    data = json.loads(RES.read_text()) if RES.exists() else {}
    for f in files:
        lines = Path(f).read_text(errors="replace").splitlines()
        for i, line in enumerate(lines):
            m = re.match(r"TRY seed=(\S+) check=(\S+)(?: tier=(\S+))? exit=(\d+) (\d+) violations", line)
            if not m:
                continue
            seed, check, tier, rc, nv = m.group(1), m.group(2), m.group(3) or "quick", int(m.group(4)), int(m.group(5))
            what = ""
            if i + 1 < len(lines) and lines[i + 1].lstrip().startswith("what:"):
                what = lines[i + 1].strip()[6:][:220]
            data.setdefault(seed, {})[check] = {"tier": tier, "exit": rc, "violations": nv, "what": what}
    RES.write_text(json.dumps(data, indent=1, ensure_ascii=False, sort_keys=True))
    return data


def table(data, rnd):
    rows = []
    for d in sorted((ROOT / "seeded").glob(f"C??-{rnd}?")):
        meta = json.loads((d / "meta.json").read_text())
        res = data.get(d.name, {})
        own = d.name[:3]
        caught = [c for c, r in sorted(res.items()) if r["exit"] == 1 and r["violations"] > 0]
        missed = [c for c, r in sorted(res.items()) if r["exit"] == 0]
        other = [c for c, r in sorted(res.items()) if r["exit"] not in (0, 1)]
        what = (meta.get("what_changed") or "").replace("|", "/").replace("\n", " ")
        what = what[:200] + ("…" if len(what) > 200 else "")
        by = ", ".join(caught) if caught else "—"
        note = ""
        if own not in caught and caught:
            note = f"not by {own}'s own check"
        if not caught:
            note = "missed" + (f" (ran: {', '.join(missed)})" if missed else " (not run)")
        if other:
            note += f" harness error in {', '.join(other)}"
        rows.append(f"| {d.name} | {what} | {by} | {note} |")
    return "\n".join(["| seed | change | caught by | note |", "|------|--------|-----------|------|"] + rows)


if __name__ == "__main__":
    if sys.argv[1] == "collect":
        d = collect(sys.argv[2:])
        print(len(d), "seeds with results")
    else:
        print(table(json.loads(RES.read_text()), sys.argv[1]))
