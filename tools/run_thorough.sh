#!/bin/bash
# usage: tools/run_thorough.sh <cap seconds> <ids...>   — runs each thorough check under a wall-clock cap, prints one line per check
CAP=$1; shift
cd "$(dirname "$0")/.."
for ID in "$@"; do
  S=$(date +%s)
  timeout $CAP ./bin/check $ID thorough > /tmp/thorough_$ID.log 2>&1; RC=$?
  E=$(( $(date +%s) - S ))
  echo "THOROUGH $ID exit=$RC ${E}s $(grep '^SUMMARY' /tmp/thorough_$ID.log | cut -d' ' -f4-)"
done
