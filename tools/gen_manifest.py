#!/usr/bin/env python3
"""Regenerates /verif/MANIFEST.json from the table below (single source of truth for what is claimed)."""
import json

CHECKS = {}
NOT_BUILT = {}


def claim(pid, category, text, note, technique, design_ref, thorough=True):
    CHECKS[pid] = {
        "property_id": pid,
        "quick_cmd": f"./bin/check {pid} quick",
        **({"thorough_cmd": f"./bin/check {pid} thorough"} if thorough else {}),
        "evidence_file": f"/verif/evidence/{pid}.json",
        "replay_cmd_template": "./bin/replay {path}",
        "engine": "vf",
        "level_claimed": {"category": category, "text": text, "design_ref": design_ref},
        "level_note": note,
        "technique": technique,
    }


claim(
    "C03",
    "other",
    "Finite domain decided completely by the solver: every law (totality, commutativity, associativity, NEUTRAL identity, "
    "Boolean agreement, README rows, UNKNOWN soundness/tightness, closure, monotonicity) is one z3 query whose negation is unsat, "
    "over terms PZ extracts from the current source of __and__/__or__/__xor__; CrossHair confirms the same laws over all paths of the real methods.",
    "Trusted: z3; the PZ ast->z3 translation (validated on all 16 operand pairs per operator against the real methods on every run); README.rst as documentation of record.",
    "source-to-SMT translation (Python ast -> z3) + one unsat query per law; CrossHair symbolic execution as cross-check",
    "DESIGN.md §6 C03",
)


XH_NOTE = ("Trusted: CrossHair 0.0.110 + z3 ('Confirmed over all paths' only; every condition has a reachability twin; counterexamples are replayed natively before they count); "
           "Lark's Transformer fold contract; Lark.parse runs untraced on the realised string; DetLoop stands for a conforming asyncio loop. ")

claim(
    "C04", "model_checking",
    "Step lemmas: CrossHair confirms, for every pair of abstract operand states (21x21) of each real RequirementConstraintTransformer callback, the documented four-valued result; "
    "bounded glue: the real requirement_constraint_evaluation (DetLoop) on every selector-built expression up to the stated number of leaves x all assignments, "
    "oracle = fold of the real parse tree with the documented tables and outcome mapping.",
    XH_NOTE + "Induction over tree depth (step lemmas + fold contract) is an argument of DESIGN.md §3.1, not machine-checked; glue bound stated in the evidence.",
    "CrossHair symbolic execution of the real callbacks/pipeline (exhaustive case split over abstract operand states and expression selectors)",
    "DESIGN.md §6 C04",
)
claim(
    "C05", "model_checking",
    "Each information-only transformation is reduced to a lemma decided on the real code: commutativity / NEUTRAL identity / monotonicity (z3 on PZ terms), step lemmas on the real callbacks "
    "(operand swap, and-ed hint, attached format constraint, refinement of UNKNOWN) for all abstract operand pairs, and a metamorphic exploration through the real requirement_constraint_evaluation "
    "(every applicable transformation and position on the bounded expression set, incl. brackets made redundant by the documented precedence with mixed spellings).",
    XH_NOTE,
    "z3 lemmas on translated operator source + CrossHair symbolic execution (step lemmas, metamorphic glue)",
    "DESIGN.md §6 C05",
)
claim(
    "C06", "model_checking",
    "Raise condition of the real or/xor/then_also callbacks decided for every abstract operand pair (depends on classes and neutrality only; invariant 'NEUTRAL <=> no requirement constraint below' re-established); "
    "evaluation raises iff structurally invalid for all selector-built expressions x all assignments; real is_valid_expression: plumbing lemma over all fault subsets of the generated results (symbolic) and end-to-end on all bounded expressions incl. duplicate keys.",
    XH_NOTE + "is_valid_expression plumbing lemma replaces parse/evaluate in its namespace by stubs.",
    "CrossHair symbolic execution (step lemma on raise condition, pipeline glue, symbolic fault subsets for is_valid_expression)",
    "DESIGN.md §6 C06",
)
claim(
    "C07", "model_checking",
    "For every in-scope operand pair of each real callback (operands carry structural representatives of format-constraint expressions) the collected expression parses with the real parser and its truth table over all 2^8 assignments "
    "equals the operator applied to the operands' tables (attachment only if the partner is FULFILLED or a hint); glue: collected expression of the real requirement_constraint_evaluation vs. the direct reading of the real parse tree, "
    "then fed to the real format_constraint_evaluation with symbolic truth values.",
    XH_NOTE + "Where an outer attachment is not effective both admissible readings are accepted (DESIGN §6.0).",
    "CrossHair symbolic execution of the real builder/callbacks with truth-table oracle; symbolic format-constraint values in the glue",
    "DESIGN.md §6 C07",
)
claim(
    "C18", "other",
    "Key ranges: LIA queries over ALL integers (no bound) on terms PZ extracts from the current source of derive_condition_node_type and extract_categorized_keys_from_tree (single key); "
    "enumeration: the real generator is run once per size and one z3 query per size, whose symbolic variable is the assignment, shows every combination occurs exactly once; "
    "list extraction / __add__ / label handling: CrossHair over index selectors into a boundary pool.",
    "Trusted: z3, CrossHair; the PZ translation (validated on a witness per path and on every range boundary +-1 against the real functions on every run); keys reach the code as [0-9]+P? strings.",
    "source-to-SMT translation + unbounded LIA queries; z3 counting query over symbolic assignment; CrossHair for list code",
    "DESIGN.md §6 C18",
)
claim(
    "C20", "other",
    "LIA lemmas (negation unsat) over terms PZ extracts from the current source of evaluate_931..935 / is_xtag_limit / has_no_utc_offset with the live pytz table of the zone object the code uses: "
    "one query covers every whole second 1996-2037 x every UTC offset (verdict, offset independence, message iff unfulfilled) and every representable datetime of years 1..9999 (no exception). Counterexamples are rendered to ISO strings and replayed on the real evaluate_93x.",
    "Trusted: z3; the time model (instant, offset) of a parsed datetime incl. CPython's OverflowError rule and pytz.fromutc's table lookup; validated per path on every run against the real functions through ISO strings. The string->datetime step (C code) is covered by witnesses only.",
    "source-to-SMT translation + time model (live tz table) + one LIA query per lemma",
    "DESIGN.md §6 C20",
)


claim(
    "C01", "model_checking",
    "One z3 query over ALL token sequences of up to N tokens (N=13 quick, 19 thorough) and all their spans decides that the live grammar (rules, order, aliases, expand1/filter flags read from the compiled Lark object) "
    "puts the weakest-binding connective at minimal bracket depth at the root of every (sub)expression under Lark's ambiguity-resolution contract; lexical lemmas (operator spellings, whitespace, bracket inlining) on the live terminals; "
    "the contract is validated on solver-chosen mixed sequences through the real parser; CrossHair drives ~2600 selector-built strings through the real parser and compares the grouping with an independent precedence parser.",
    "Trusted: z3; the resolution-contract model of lark/parsers/earley_forest.py (validated each run); token-level abstraction of the Earley dynamic lexer. Bound: N tokens.",
    "grammar-to-SMT (CYK + label model over a symbolic token sequence) + z3 regex lemmas; CrossHair on the real parser as bounded cross-check",
    "DESIGN.md §6 C01",
)
claim(
    "C02", "model_checking",
    "Bounded language equality of the live condition grammar with an independently written recogniser of the documented language: one z3 query over all token sequences <= N (12 quick / 18 thorough); "
    "unbounded z3 regular-expression lemmas per terminal class; exception plumbing of the four entry points for every behaviour of a nondeterministic Lark stub (CrossHair); assembled well-formed/malformed/garbage strings through the real parsers.",
    XH_NOTE + "Lark.parse raises only UnexpectedEOF/UnexpectedCharacters/TypeError on malformed input (the stub's range). AHB grammar's own language only via (b)/(c).",
    "grammar-to-SMT language equality + z3 regex equality + CrossHair with nondeterministic parser stub",
    "DESIGN.md §6 C02",
)
claim(
    "C08", "model_checking",
    "Step lemma with fully symbolic operands (bool, Optional[str]) on the real FormatConstraintTransformer callbacks: Boolean value always; error message iff unfulfilled under the proviso; leaf lemma on the real FcEvaluator.evaluate_single_format_constraint; "
    "glue: real format_constraint_evaluation on all expressions up to 3 (4) keys with a symbolic truth assignment vs. the Boolean fold of the real parse tree, with and without error messages on the single constraints.",
    XH_NOTE,
    "CrossHair symbolic execution with symbolic bool / Optional[str] operands",
    "DESIGN.md §6 C08",
)


claim(
    "C09", "model_checking",
    "Indicator terminals: z3 regex equality with the documented spellings (unbounded) and complete z3 enumeration (AllSAT until unsat) of the finite live terminal languages, every lexeme replayed through the real token callbacks; "
    "selection loop (first fulfilled part, else last; part keeps its own outcome) for k<=3(4) parts with symbolic outcomes, plain/awaitable mask and yields on DetLoop; assembled AHB expressions (all modal-mark spellings, prefix operators, "
    "bare marks, 2-3 parts, trailing bare mark, whitespace variants) through the real parser, resolver and evaluation: split == written parts, result == the deciding part evaluated on its own.",
    XH_NOTE + "The split itself happens inside Lark (parser concretised): claimed for the assembled strings only.",
    "z3 regex equality + complete enumeration of finite terminal languages; CrossHair on DetLoop (symbolic outcomes and yields)",
    "DESIGN.md §6 C09",
)
claim(
    "C10", "model_checking",
    "For every selector-built well-formed expression (all 1-/2-leaf combinations of key, [nP], [nPa..b], [UB1..3] with U/O/X, hand-picked 3-leaf shapes, bare / behind indicators / inside multi-part AHB expressions) CrossHair explores all package tables from a pool "
    "(incl. unknown package, package containing a time condition, package containing a package) and all resolver completion orders (symbolic yields): the resolved tree equals the real parser's tree of the textually substituted string; unknown package => NotImplementedError; all four flag combinations.",
    XH_NOTE,
    "CrossHair on DetLoop with symbolic package-table selectors and resolver yields; substitution oracle",
    "DESIGN.md §6 C10",
)
claim(
    "C11", "model_checking",
    "All histories within the bound (1-2 steps quick / 3 thorough: call kind {condition parse, AHB parse, resolver call}, string, one of 11 in-place edits of the returned tree at depth 0/1; then a final parse) against the REAL lru_cache "
    "(reached through an untraced proxy, because CrossHair bypasses lru_cache); eviction explored on the same tree_copy/raw function composed with lru_cache(maxsize=2); after every parse the tree equals a fresh uncached Lark parse.",
    XH_NOTE + "The real maxsize=1024 is only exercised by one concrete run in the thorough tier.",
    "CrossHair over symbolic histories with the real cache behind a NoTracing proxy",
    "DESIGN.md §6 C11",
)
claim(
    "C12", "model_checking",
    "The number of event-loop turns of every user-supplied awaitable is a symbolic int: full pipeline (3 requirement keys, 2 format keys, hints, 2-3 modal-mark parts) equals the run in which nothing yields for every yield vector; "
    "gather_if_necessary for every plain/awaitable mask (k<=4); evaluate_conditions / evaluate_format_constraints / get_hints pair each key with its own value (incl. duplicate keys); concurrent evaluations whose data comes from context-local storage "
    "(real ContentEvaluationResult-based evaluators) equal their solo results.",
    XH_NOTE + "Schedules are those a FIFO loop produces from the yield counts; C-accelerated Task and threads are outside.",
    "CrossHair on DetLoop with symbolic yield counts (completion orders as solver variables)",
    "DESIGN.md §6 C12",
)
VAL_NOTE = XH_NOTE + "Step lemmas replace callees in ahbicht.validation.validation's namespace by stubs satisfying the callee's own contract; the evaluation stub returns a symbolic (indicator, outcome, hints, format result) or raises InvalidExpressionError. Whole-tree glue uses real expressions and real evaluation on four AHB trees."
claim(
    "C13", "model_checking",
    "Kernels map_requirement_validation_values / combine_requirements_of_different_levels == documented mapping/table, decided completely by z3 on PZ terms; every validate_* function explored by CrossHair for all abstract inputs: document order, exactly once, "
    "nothing below a forbidden group/segment, parent dominance, FILLED/EMPTY suffix, NotImplementedError for an undetermined MUSS/prefix node; whole trees against the reference walk.",
    VAL_NOTE,
    "z3 on translated kernels + CrossHair step lemmas with contract stubs + whole-tree glue",
    "DESIGN.md §6 C13",
)
claim(
    "C14", "model_checking",
    "Relational step lemmas: a node evaluated with indicator SOLL under flag f equals the node with MUSS (f) / KANN (not f) under any flag, for every evaluation class at segment-level nodes and free-text elements; every validate_* function passes the flag unchanged to all callees; "
    "whole trees validated with the flag vs. with SOLL textually rewritten.",
    VAL_NOTE,
    "CrossHair relational step lemmas + whole-tree glue",
    "DESIGN.md §6 C14",
)
claim(
    "C15", "model_checking",
    "Real validate_deep_anwendungshandbuch / validate_segment with 4 (5) free-text elements in two segments sharing format-constraint keys; the text-dependent format-constraint evaluator suspends for a symbolic number of loop turns per element: "
    "every yield vector is explored; each element's format result is the one for its own input and equals the element validated on its own.",
    XH_NOTE,
    "CrossHair on DetLoop with symbolic yield counts; ContextVar semantics of the stdlib pure-Python Task",
    "DESIGN.md §6 C15",
)
claim(
    "C16", "fault_enumeration",
    "Fault = the evaluation of a node's expression raises InvalidExpressionError: every node kind (group, segment, free-text element) and every subset of value-pool entries (pool size <= 3) is explored with a symbolic fault selector: the node is optional with the reason as hint, "
    "an invalid pool entry is selectable, nothing aborts; whole trees with real invalid expressions (also multi-part) equal the run with 'Kann' in their place on every other node.",
    VAL_NOTE,
    "CrossHair with symbolic fault subsets (stubbed InvalidExpressionError) + whole-tree glue with real invalid expressions",
    "DESIGN.md §6 C16",
)
claim(
    "C17", "model_checking",
    "Real validate_data_element_valuepool for every pool of 1-3 entries x entry outcome {fulfilled, unfulfilled, undetermined, invalid} x segment status x 8 entered inputs (absent, empty, each qualifier, foreign, truncated, joined): offered == admissible qualifiers in pool order, "
    "accepted iff offered, unexpected flagged and reported empty, nothing offered => forbidden; whole trees with real evaluation.",
    VAL_NOTE,
    "CrossHair step lemma over symbolic entry outcomes/inputs + whole-tree glue",
    "DESIGN.md §6 C17",
)
claim(
    "C19", "model_checking",
    "dump -> JSON -> load == original for RequirementConstraintEvaluationResult (incl. undetermined/null), FormatConstraintEvaluationResult, EvaluatedFormatConstraint, AhbExpressionEvaluationResult (all six indicators), ContentEvaluationResult with SYMBOLIC bool / Optional[str] field values "
    "(strings stay symbolic through marshmallow); CategorizedKeyExtract (sanitized and not); every tree of the bounded case lists of C09/C10 through the real JSON text step, structurally equal and evaluating to the same result.",
    XH_NOTE + "json.dumps/json.loads (C code) is assumed to be the identity on JSON-compatible structures for the symbolic-field harnesses (the dumped structure is checked to be JSON-compatible); trees take the real text step.",
    "CrossHair with symbolic field values through the real marshmallow schemas",
    "DESIGN.md §6 C19",
)

ALL = [f"C{n:02d}" for n in range(1, 21)]
manifest = {
    "version": 1,
    "setup_cmd": "./bin/bootstrap",
    "hooks": {
        "guard": "AHBICHT_VERIF",
        "enable": "no hooks: harnesses replace module attributes from outside inside their own process; nothing in /repo is guarded",
        "baseline_off_cmd": "cd /repo && /venv/bin/python -m pytest -ra -q -p no:cacheprovider --timeout=900 --continue-on-collection-errors",
        "source_commits": [],
        "add_only": True,
    },
    "engines": [
        {"name": "XH", "path": "vf/xh.py", "kind_free_text": "CrossHair 0.0.110 symbolic execution of the real ahbicht functions (z3 inside), per condition, 'Confirmed over all paths' only", "serves_properties": sorted(CHECKS)},
        {"name": "PZ", "path": "vf/pyz3.py", "kind_free_text": "Python-ast -> z3 translator for loop-free kernels, paths enumerated by solver feasibility", "serves_properties": [p for p in ("C03", "C05", "C13", "C18", "C20") if p in CHECKS]},
        {"name": "GS", "path": "vf/grammar_smt.py", "kind_free_text": "live Lark grammar -> CYK/label tables over a symbolic token sequence (z3); vf/sre2z3.py: terminal regexes -> z3 RE", "serves_properties": [p for p in ("C01", "C02", "C07", "C09") if p in CHECKS]},
        {"name": "TM", "path": "vf/timemodel.py", "kind_free_text": "z3 model of civil time with the live pytz transition table", "serves_properties": [p for p in ("C20",) if p in CHECKS]},
        {"name": "DL", "path": "vf/detloop.py", "kind_free_text": "clock-free deterministic asyncio loop executed symbolically by CrossHair", "serves_properties": [p for p in ("C04", "C05", "C06", "C07", "C08", "C09", "C10", "C12", "C13", "C14", "C15", "C16", "C17") if p in CHECKS]},
    ],
    "checks": [CHECKS[p] for p in ALL if p in CHECKS],
    "notes": "Solver-based checking of the real code (CrossHair + z3; source-to-SMT translators PZ/GS/TM, regex model with character classes from the live re engine). See DESIGN.md (sections 9: defects found and repaired by 12 fix: commits in /repo, all recorded as fixed in known_findings.json, no open finding; 11: bounds; 13: 160 seeded changes and which check reports each). Exit 2 = harness error (never a violation). Quick tier: 20 s - 4 min per property on 16 cores; thorough tier: 15 s - 20 min per property (deeper bounds of the same obligations + cvc5 cross-check of the z3 lemmas).",
    "not_applicable": [
        {"property_id": p, "reason": NOT_BUILT.get(p, "check not built yet in this session (planned: see DESIGN.md §6); not claimed until its quick command has run green end-to-end")}
        for p in ALL
        if p not in CHECKS
    ],
}
json.dump(manifest, open("/verif/MANIFEST.json", "w"), indent=1, ensure_ascii=False)
print("claimed:", sorted(CHECKS))
