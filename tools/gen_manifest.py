#!/usr/bin/env python3
"""Regenerates /verif/MANIFEST.json from the table below (single source of truth for what is claimed)."""
import json

CHECKS = {}
NOT_BUILT = {}


def claim(pid, category, text, note, technique, design_ref, thorough=True):
    CHECKS[pid] = {
        "property_id": pid,
        "quick_cmd": f"./bin/check {pid} quick",
        **({"thorough_cmd": f"./bin/check {pid} thorough"} if thorough else {}),
        "evidence_file": f"/verif/evidence/{pid}.json",
        "replay_cmd_template": "./bin/replay {path}",
        "engine": "vf",
        "level_claimed": {"category": category, "text": text, "design_ref": design_ref},
        "level_note": note,
        "technique": technique,
    }


claim(
    "C03",
    "other",
    "Finite domain decided completely by the solver: every law (totality, commutativity, associativity, NEUTRAL identity, "
    "Boolean agreement, README rows, UNKNOWN soundness/tightness, closure, monotonicity) is one z3 query whose negation is unsat, "
    "over terms PZ extracts from the current source of __and__/__or__/__xor__; CrossHair confirms the same laws over all paths of the real methods.",
    "Trusted: z3; the PZ ast->z3 translation (validated on all 16 operand pairs per operator against the real methods on every run); README.rst as documentation of record.",
    "source-to-SMT translation (Python ast -> z3) + one unsat query per law; CrossHair symbolic execution as cross-check",
    "DESIGN.md §6 C03",
)

ALL = [f"C{n:02d}" for n in range(1, 21)]
manifest = {
    "version": 1,
    "setup_cmd": "./bin/bootstrap",
    "hooks": {
        "guard": "AHBICHT_VERIF",
        "enable": "no hooks: harnesses replace module attributes from outside inside their own process; nothing in /repo is guarded",
        "baseline_off_cmd": "cd /repo && /venv/bin/python -m pytest -ra -q -p no:cacheprovider --timeout=900 --continue-on-collection-errors",
        "source_commits": [],
        "add_only": True,
    },
    "engines": [
        {"name": "XH", "path": "vf/xh.py", "kind_free_text": "CrossHair 0.0.110 symbolic execution of the real ahbicht functions (z3 inside), per condition, 'Confirmed over all paths' only", "serves_properties": sorted(CHECKS)},
        {"name": "PZ", "path": "vf/pyz3.py", "kind_free_text": "Python-ast -> z3 translator for loop-free kernels, paths enumerated by solver feasibility", "serves_properties": [p for p in ("C03", "C13", "C18", "C20") if p in CHECKS]},
    ],
    "checks": [CHECKS[p] for p in ALL if p in CHECKS],
    "notes": "Solver-based checking of the real code (CrossHair + z3). See DESIGN.md. Exit 2 = harness error (never a violation).",
    "not_applicable": [
        {"property_id": p, "reason": NOT_BUILT.get(p, "check not built yet in this session (planned: see DESIGN.md §6); not claimed until its quick command has run green end-to-end")}
        for p in ALL
        if p not in CHECKS
    ],
}
json.dump(manifest, open("/verif/MANIFEST.json", "w"), indent=1, ensure_ascii=False)
print("claimed:", sorted(CHECKS))
