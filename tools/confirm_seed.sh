#!/bin/bash
# usage: tools/confirm_seed.sh <Cxx> <a|b> [srcdir=/tmp/seeds]
# Confirms a seeded change independently in the scratch worktree /tmp/wt/<Cxx>: patch applies, the unedited suite passes,
# the demo FAILs with the patch and PASSes without.  On success copies it to /verif/seeded/<Cxx>-<x>/.
set -uo pipefail
ID=$1; X=$2; SRC=${3:-/tmp/seeds}
WT=/tmp/wt/$ID; S=$SRC/$ID/$X
[ -d "$WT" ] || git -C /repo worktree add -q --detach "$WT" HEAD
cd "$WT" && git checkout -q -- . && git clean -fdq
git apply --check "$S/patch.diff" || { echo "CONFIRM $ID/$X: patch does not apply"; exit 1; }
PYTHONPATH=$WT/src /venv/bin/python "$S/demo.py" >/tmp/seeds/$ID-$X.demo0 2>&1; D0=$?
git apply "$S/patch.diff"
T=$(PYTHONPATH=$WT/src /venv/bin/python -m pytest -q -p no:cacheprovider 2>&1 | tail -1)
PYTHONPATH=$WT/src /venv/bin/python "$S/demo.py" >/tmp/seeds/$ID-$X.demo1 2>&1; D1=$?
git checkout -q -- . && git clean -fdq
echo "CONFIRM $ID/$X: tests_with_patch='$T' demo_without=$D0 demo_with=$D1"
if [[ "$T" == *"532 passed"* && $D0 -eq 0 && $D1 -ne 0 ]]; then
  mkdir -p /verif/seeded/$ID-$X && cp "$S/patch.diff" "$S/demo.py" /verif/seeded/$ID-$X/ && cp "$S/meta.json" /verif/seeded/$ID-$X/meta.agent.json 2>/dev/null
  echo "CONFIRMED $ID/$X"
else
  echo "REJECTED $ID/$X"; exit 1
fi
