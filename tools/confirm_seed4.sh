#!/bin/bash
# usage: tools/confirm_seed4.sh <seed name, e.g. C07-r4a> <agent worktree holding the change and demo.py>
# Takes the sub-agent's change out of its worktree (git diff of src/), confirms it independently in a FRESH scratch worktree
# (/tmp/wt4/<seed>): the unedited suite passes with the patch, demo.py passes without and fails with it.  On success stores
# patch.diff + demo.py under /verif/seeded/<seed>/ (meta.json is written by hand afterwards).  Removes its scratch worktree.
set -uo pipefail
SEED=$1; AG=$2
WT=/tmp/wt4/$SEED; mkdir -p /tmp/wt4
git -C "$AG" diff -- src > /tmp/wt4/$SEED.patch
[ -s /tmp/wt4/$SEED.patch ] || { echo "CONFIRM $SEED: empty patch"; exit 1; }
cp "$AG/demo.py" /tmp/wt4/$SEED.demo.py || exit 1
git -C /repo worktree add -q --detach "$WT" HEAD
cd "$WT"
PYTHONPATH=$WT/src /venv/bin/python /tmp/wt4/$SEED.demo.py > /tmp/wt4/$SEED.demo0 2>&1; D0=$?
git apply /tmp/wt4/$SEED.patch || { echo "CONFIRM $SEED: patch does not apply"; git -C /repo worktree remove --force "$WT"; exit 1; }
T=$(PYTHONPATH=$WT/src /venv/bin/python -m pytest -q -p no:cacheprovider 2>&1 | tail -1)
PYTHONPATH=$WT/src /venv/bin/python /tmp/wt4/$SEED.demo.py > /tmp/wt4/$SEED.demo1 2>&1; D1=$?
cd /; git -C /repo worktree remove --force "$WT"
echo "CONFIRM $SEED: tests_with_patch='$T' demo_without=$D0 demo_with=$D1"
if [[ "$T" == *"532 passed"* && $D0 -eq 0 && $D1 -ne 0 ]]; then
  mkdir -p /verif/seeded/$SEED && cp /tmp/wt4/$SEED.patch /verif/seeded/$SEED/patch.diff && cp /tmp/wt4/$SEED.demo.py /verif/seeded/$SEED/demo.py
  echo "CONFIRMED $SEED"
else
  echo "REJECTED $SEED"; tail -5 /tmp/wt4/$SEED.demo0 /tmp/wt4/$SEED.demo1; exit 1
fi
