#!/bin/bash
# usage: try_fixed.sh <seed> <tier> <checks...>   (uses patch.fixed-tree.diff)
NAME=$1; TIER=$2; shift 2
P=/verif/seeded/$NAME/patch.fixed-tree.diff
cd /repo && git status --porcelain | grep -q . && { echo "/repo not clean"; exit 3; }
git -C /repo apply "$P" || { echo "patch failed"; exit 3; }
trap 'git -C /repo checkout -q -- . ; git -C /repo clean -fdq src' EXIT
for C in "$@"; do
  cd /verif && ./bin/check $C $TIER > /tmp/seeds/try-$NAME-$C.log 2>&1; RC=$?
  echo "TRY seed=$NAME(fixed-tree) check=$C tier=$TIER exit=$RC $(grep -c '^VIOLATION' /tmp/seeds/try-$NAME-$C.log) violations; $(grep '^SUMMARY' /tmp/seeds/try-$NAME-$C.log)"
  grep -A1 '^VIOLATION' /tmp/seeds/try-$NAME-$C.log | head -4 | cut -c1-400
done
