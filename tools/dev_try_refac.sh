#!/bin/bash
# usage: tools/dev_try_refac.sh <refactoring diff> <check id>  — like dev_try.sh, for a behaviour-preserving edit: the check must exit 0
set -uo pipefail
P=$1; CHECK=$2; WT=/tmp/repo_rf_$$
rsync -a --delete --exclude .git --exclude .venv --exclude .work /verif/ /tmp/verif_rf_$$/
git -C /repo worktree add -q --detach $WT HEAD
git -C $WT apply $P || { echo "REFAC $(basename $P) patch failed"; git -C /repo worktree remove --force $WT; rm -rf /tmp/verif_rf_$$; exit 3; }
mkdir -p /tmp/devtry
(cd /tmp/verif_rf_$$ && VERIF_REPO=$WT ./bin/check $CHECK quick > /tmp/devtry/refac-$(basename $P)-$CHECK.log 2>&1); RC=$?
echo "REFAC $(basename $P) check=$CHECK exit=$RC $(grep -c '^VIOLATION' /tmp/devtry/refac-$(basename $P)-$CHECK.log) violations; $(grep '^SUMMARY' /tmp/devtry/refac-$(basename $P)-$CHECK.log | cut -d' ' -f4-)" | tee -a /tmp/devtry/refac_results.txt
git -C /repo worktree remove --force $WT; rm -rf /tmp/verif_rf_$$
