#!/bin/bash
# usage: tools/dev_try.sh <seed dir name> <check id> [tier]   — runs the WORKING-TREE checks (copied to /tmp/verif_dev) against a
# scratch worktree of /repo with the seed applied; /repo and /verif/evidence stay untouched.
set -uo pipefail
SEED=$1; CHECK=$2; TIER=${3:-quick}
WT=/tmp/repo_try_$$
rsync -a --delete --exclude .git --exclude .venv --exclude .work /verif/ /tmp/verif_dev_$$/
git -C /repo worktree add -q --detach $WT HEAD
P=/verif/seeded/$SEED/patch.diff
if ! git -C $WT apply $P 2>/dev/null; then
  [ -f /verif/seeded/$SEED/patch.fixed-tree.diff ] && git -C $WT apply /verif/seeded/$SEED/patch.fixed-tree.diff || { echo "TRY seed=$SEED patch failed"; git -C /repo worktree remove --force $WT; rm -rf /tmp/verif_dev_$$; exit 3; }
fi
mkdir -p /tmp/devtry
(cd /tmp/verif_dev_$$ && VERIF_REPO=$WT ./bin/check $CHECK $TIER > /tmp/devtry/$SEED-$CHECK.log 2>&1); RC=$?
{ echo "TRY seed=$SEED check=$CHECK tier=$TIER exit=$RC $(grep -c '^VIOLATION' /tmp/devtry/$SEED-$CHECK.log) violations; $(grep '^SUMMARY' /tmp/devtry/$SEED-$CHECK.log | cut -d' ' -f4-)"
grep -A1 '^VIOLATION' /tmp/devtry/$SEED-$CHECK.log | grep what | head -1 | cut -c1-300; } | tee -a /tmp/devtry/results.txt
git -C /repo worktree remove --force $WT; rm -rf /tmp/verif_dev_$$
