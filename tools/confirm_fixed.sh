#!/bin/bash
# usage: tools/confirm_fixed.sh <seed dir name>  — confirms seeded/<name>/patch.fixed-tree.diff (or patch.diff) against /repo HEAD in a scratch worktree
set -uo pipefail
N=$1; D=/verif/seeded/$N; WT=/tmp/wt_cf_$$
P=$D/patch.fixed-tree.diff; [ -f $P ] || P=$D/patch.diff
git -C /repo worktree add -q --detach $WT HEAD
cd $WT
PYTHONPATH=$WT/src timeout 600 /venv/bin/python $D/demo.py >/dev/null 2>&1; D0=$?
git apply $P || { echo "CONFIRM-FIXED $N: patch does not apply"; cd /; git -C /repo worktree remove --force $WT; exit 1; }
T=$(PYTHONPATH=$WT/src /venv/bin/python -m pytest -q -p no:cacheprovider 2>&1 | tail -1)
PYTHONPATH=$WT/src timeout 600 /venv/bin/python $D/demo.py >/dev/null 2>&1; D1=$?
cd /; git -C /repo worktree remove --force $WT
echo "CONFIRM-FIXED $N ($(basename $P)): tests_with_patch='$T' demo_without=$D0 demo_with=$D1"
